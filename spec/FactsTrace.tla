----------------------------- MODULE FactsTrace -----------------------------
(***************************************************************************)
(* Static facts of the compiled tree (sizes, offsets, macro and enumerator *)
(* values, return widths, writable symbols) recorded by the harness are    *)
(* validated against the specification's tables: a fact is an event, the   *)
(* trace is accepted iff every fact is one the specification allows.       *)
(*  C03: published header length = sizeof(header type) = payload offset =  *)
(*       HdrLen[view]                                                      *)
(*  C01: a dedicated getter's return type is at least as wide as its field *)
(*  C12: legacy alias macros designate the normative field; packed legacy  *)
(*       structures have the layout the header views imply                 *)
(*  C16: SharedCells = {}: no library symbol lives in a writable section   *)
(*  C05: what the public declarations promise the caller's compiler about  *)
(*       a function (const / pure / noreturn ...) is true of it            *)
(***************************************************************************)
EXTENDS Wire1722, Json, IOUtils, Sequences, TLC
Tr == ndJsonDeserialize(IOEnv.TRACE)
VARIABLE l
SharedCells == {}        \* library-owned writable static storage the specification allows: none

Allowed(ev) ==
  CASE ev.kind \in {"header_len", "sizeof", "payload_offset"} ->
         ev.view \in Views /\ ev.value = HdrLen[ev.view]
    [] ev.kind = "ret_bits" ->
         ev.view \in Views /\ ev.field \in FieldNames(ev.view) /\ ev.value >= FieldOf(ev.view, ev.field).w
    [] ev.kind = "alias" ->
         [macro |-> ev.name, view |-> ev.view, field |-> ev.field] \in LegacyAlias
    [] ev.kind = "alias_max" ->
         [macro |-> ev.name, view |-> ev.view] \in LegacyMaxAlias /\ ev.value = Len(FieldsOf(ev.view))
    [] ev.kind = "struct_size" ->
         \E s \in LegacyStructs : s.name = ev.name /\ s.size = ev.value
    [] ev.kind = "struct_member" ->
         \E s \in LegacyStructs : s.name = ev.name /\ ev.member \in DOMAIN s.members /\ s.members[ev.member] = ev.value
    [] ev.kind = "writable_symbol" ->
         ev.name \in SharedCells
    [] ev.kind = "fn_promise" ->        \* what a public declaration promises the caller's compiler must be true of the function
         LET A == { ev.attrs[i] : i \in DOMAIN ev.attrs } IN
         /\ "noreturn" \notin A /\ "returns_twice" \notin A /\ "malloc" \notin A /\ "weak" \notin A
         /\ (ev.reads = 1 => "const" \notin A)          \* the result of a reader is a function of the bytes, not of the address
         /\ (ev.writes = 1 => "pure" \notin A /\ "const" \notin A)
    [] OTHER -> FALSE

TInit == l = 1
TNext == l <= Len(Tr) /\ Tr[l].e = "fact" /\ Allowed(Tr[l]) /\ l' = l + 1
TSpec == TInit /\ [][TNext]_l
TraceAccepted == TLCGet("stats").diameter - 1 = Len(Tr)
=============================================================================
