-------------------------- MODULE CanListenerTrace --------------------------
(* Trace specification for CanListener: {"e":"dgram","bytes":[..],"frames":[..],"ret":r} - one datagram handed to the real
   new_packet() of acf-can-listener, the frames it wrote to the CAN side and its return value. *)
EXTENDS CanListener, Json, IOUtils, TLC
Tr == ndJsonDeserialize(IOEnv.TRACE)
VARIABLE l
ASSUME Buf = {1}
TInit == l = 1 /\ Init /\ mem = << >> /\ hb = << >> /\ out = Sentinel /\ step = << >>
TNext ==
  /\ l <= Len(Tr) /\ l' = l + 1 /\ UNCHANGED <<tvars, mem, hb, out, step>>
  /\ LET ev == Tr[l]  o == ListenerOut(ev.bytes) IN
       /\ ev.e = "dgram" /\ o.fs = ev.frames /\ o.ret = ev.ret
       /\ AgreesWithTunnel(ev.bytes)
TSpec == TInit /\ [][TNext]_<<tvars, l, mem, hb, out, step>>
TraceAccepted == TLCGet("stats").diameter - 1 = Len(Tr)
=============================================================================
