----------------------------- MODULE CanListener -----------------------------
(***************************************************************************)
(* What the ACF-CAN example listener writes to the CAN bus for ANY         *)
(* datagram (growth beyond the listed properties; anchors of C18 / C19).   *)
(* CanTunnel says what a well-formed packet means; this module says what   *)
(* the listener does with every other datagram too: it forwards the frames *)
(* of the longest prefix of well-formed ACF-CAN messages inside the        *)
(* announced control-format payload and stops at the first thing that is   *)
(* not one (nothing of the rest is forwarded, nothing is invented).        *)
(*   ret = 1: the whole announced payload was consumed; 0: stopped early   *)
(* The checks are those of the program, expressed with the normative       *)
(* layouts: datagram long enough for the headers, subtype TSCF or NTSCF,   *)
(* announced payload inside the datagram; per message: a complete header   *)
(* left, type CAN, length >= header + pad and inside the payload, payload  *)
(* fits a frame of the variant, identifier above 11 bits only with EFF.    *)
(***************************************************************************)
EXTENDS CanTunnel
MaxDgram == 1500
SeenL(p) == IF Len(p) > MaxDgram THEN SubSeq(p, 1, MaxDgram) ELSE p      \* recv() cuts longer datagrams
Stop(fs) == [fs |-> fs, ret |-> 0]
IdAbove11(id) == id[1] > 0 \/ id[2] > 0 \/ id[3] > 7                      \* id: 4 bytes, 29 significant bits

RECURSIVE OutWalk(_, _, _)
OutWalk(m, h, limit) ==
  IF h >= limit THEN [fs |-> << >>, ret |-> 1]
  ELSE IF limit - h < HdrLen["Can"] THEN Stop(<< >>)
  ELSE IF G(m, h, "AcfCommon", "acf_msg_type") # 1 THEN Stop(<< >>)
  ELSE LET ql == G(m, h, "Can", "acf_msg_length") * 4  pad == G(m, h, "Can", "pad") IN
       IF ql < HdrLen["Can"] + pad \/ ql > limit - h THEN Stop(<< >>)
       ELSE IF ql - HdrLen["Can"] - pad > (IF Fd = 1 THEN 64 ELSE 8) THEN Stop(<< >>)
       ELSE IF G(m, h, "Can", "eff") = 0 /\ IdAbove11(Id29(m, h)) THEN Stop(<< >>)
       ELSE LET f == AcfFrame(m, h)
                fr == IF Fd = 1 THEN f ELSE [f EXCEPT !.fdf = 0, !.brs = 0, !.esi = 0]      \* a classic frame has no FD flags
                rest == OutWalk(m, h + ql, limit)
            IN [fs |-> << fr >> \o rest.fs, ret |-> rest.ret]

ListenerOut(p0) ==
  LET p == SeenL(p0)  off == CfOff IN
  IF Len(p) < off + 4 THEN Stop(<< >>)
  ELSE LET st == G(p, off, "CommonHeader", "subtype") IN
       IF st # 5 /\ st # 130 THEN Stop(<< >>)
       ELSE LET hl == IF st = 5 THEN 24 ELSE 12 IN
            IF Len(p) < off + hl THEN Stop(<< >>)
            ELSE LET ml == IF st = 5 THEN G(p, off, "Tscf", "stream_data_length") ELSE G(p, off, "Ntscf", "ntscf_data_length") IN
                 IF off + hl + ml > Len(p) THEN Stop(<< >>)
                 ELSE OutWalk(p, off + hl, off + hl + ml)

\* on packets the tunnel accepts, the two descriptions agree
Malformed(fs) == \E i \in 1..Len(fs) : fs[i].eff = 2             \* (Walk appends the BadPacket marker where it stops)
AgreesWithTunnel(p) == (~Malformed(Decode(p)) /\ Len(p) <= MaxDgram /\ \A i \in 1..Len(Decode(p)) :
                           (Len(Decode(p)[i].data) <= (IF Fd = 1 THEN 64 ELSE 8) /\ (Decode(p)[i].eff = 1 \/ ~IdAbove11(Decode(p)[i].id))))
                       => ListenerOut(p).fs = (IF Fd = 1 THEN Decode(p) ELSE [i \in 1..Len(Decode(p)) |-> [Decode(p)[i] EXCEPT !.fdf = 0, !.brs = 0, !.esi = 0]])
=============================================================================
