------------------------------ MODULE GenTunnel ------------------------------
(* Scenario enumeration for C19: behaviours of the tunnel's input side.  TLC explores every
   sequence of NPackets x Count frames over the frame alphabet below and prints each complete
   scenario; the scenario is then pushed through the real talker and listener and the recorded
   run is validated by TunnelTrace.  (Model level: a reference talker that encodes with the
   normative layout makes the machine transparent - checked here as RefTransparent.) *)
EXTENDS CanTunnel, CanBuild, Json, TLC, FiniteSets
CONSTANTS NPackets, Lens,
          CapSet       \* {}: enumerate; otherwise { 100 * j + len_j } = the data lengths of ONE prescribed scenario of Count frames
                       \* (packets filled up to the size limit of the example programs, where enumeration is out of reach;
                       \* a set because TLC configuration files have no tuples); with NPackets > 1 the lengths repeat cyclically:
                       \* long runs of one talker process (the 8-bit sequence number wraps after 256 packets)
VARIABLES k
ASSUME Buf = {1}

Data(len, salt) == Mat([i \in 1..len |-> (i * 29 + salt * 7 + 1) % 256])
IdSet == { [id |-> V64(0), eff |-> 0], [id |-> V64(2047), eff |-> 0], [id |-> V64(291), eff |-> 1], [id |-> V64(2048), eff |-> 1],
           [id |-> <<0,0,0,0,31,255,255,255>>, eff |-> 1] }
Frames ==
  { [id |-> SubBytes(i.id, 4, 4), eff |-> i.eff, rtr |-> r, fdf |-> Fd, brs |-> b, esi |-> e, data |-> Data(ln, b + 2 * e + r)] :
      i \in IdSet, r \in (IF Fd = 1 THEN {0} ELSE {0, 1}), b \in (IF Fd = 1 THEN {0, 1} ELSE {0}), e \in (IF Fd = 1 THEN {0, 1} ELSE {0}), ln \in Lens }

IdSeq == << [id |-> V64(291), eff |-> 1], [id |-> V64(2047), eff |-> 0], [id |-> <<0,0,0,0,31,255,255,255>>, eff |-> 1], [id |-> V64(0), eff |-> 0] >>
CapFrame(j) ==
  LET i == IdSeq[(j % 4) + 1] IN
  [id |-> SubBytes(i.id, 4, 4), eff |-> i.eff, rtr |-> IF Fd = 1 THEN 0 ELSE (j \div 4) % 2, fdf |-> Fd,
   brs |-> IF Fd = 1 THEN j % 2 ELSE 0, esi |-> IF Fd = 1 THEN (j \div 2) % 2 ELSE 0, data |-> Data((CHOOSE e \in CapSet : e \div 100 = ((j - 1) % Cardinality(CapSet)) + 1) % 100, j % 251)]

\* reference talker: the packet a conforming talker would send for the pending frames
RECURSIVE RefAcfs(_)
RefAcfs(fs) ==
  IF fs = << >> THEN << >>
  ELSE LET f == Head(fs)
           a0 == InitSem(Fill(MsgLen("full", Len(f.data)), 0), 0, "Can")
           a1 == Build(a0, 0, "full", V64(0), f.fdf, f.data)
           a2 == SetSem(SetSem(SetSem(SetSem(SetSem(a1, 0, "Can", "can_identifier", <<0,0,0,0>> \o f.id), 0, "Can", "eff", V64(f.eff)),
                                              0, "Can", "rtr", V64(f.rtr)), 0, "Can", "brs", V64(f.brs)), 0, "Can", "esi", V64(f.esi))
       IN a2 \o RefAcfs(Tail(fs))
RefPacket(fs) ==
  LET body == RefAcfs(fs)
      hdr  == SetSem(SetSem(InitSem(Fill(HdrLen[CfView], 0), 0, CfView), 0, CfView, CfLenField, V64(Len(body))), 0, CfView, "sequence_num", V64(nsent % 256))
  IN (IF Udp = 1 THEN SubBytes(V64(nsent), 4, 4) ELSE << >>) \o hdr \o body

GInit == Init /\ k = 0 /\ mem = << >> /\ hb = << >> /\ out = Sentinel /\ step = << >>
GNext ==
  /\ UNCHANGED <<mem, hb, out, step>>
  /\ \/ k < NPackets /\ CapSet = {} /\ (\E f \in Frames : Read(f)) /\ k' = k
     \/ k < NPackets /\ CapSet # {} /\ wire = << >> /\ Len(inq) < NPackets * Count /\ Read(CapFrame(Len(inq) + 1)) /\ k' = k
     \/ k < NPackets /\ Send(RefPacket(pending)) /\ k' = k + 1
     \/ Deliver(Head(wire), Decode(Head(wire))) /\ k' = k
GSpec == GInit /\ [][GNext]_<<tvars, k, mem, hb, out, step>>
RefTransparent == Transparent /\ (wire = << >> /\ pending = << >> => outq = inq)
Emit == ~(k = NPackets /\ wire = << >>) \/ PrintT(ToJson([frames |-> inq, tscf |-> Tscf, udp |-> Udp, fd |-> Fd, count |-> Count]))
=============================================================================
