------------------------------ MODULE ByteOrder ------------------------------
(***************************************************************************)
(* Byte-order helpers (C13) and the host model used by C14.                *)
(*                                                                         *)
(* A k-byte value is its sequence of bytes, most significant first (its    *)
(* "logical" form).  A host stores a k-byte object in memory either in     *)
(* that order (big-endian host) or reversed (little-endian host).  The     *)
(* header offers two helper sets, selected at compile time (the "branch"). *)
(***************************************************************************)
EXTENDS BitVec

Hosts == {"LE", "BE"}
Rev(v) == Mat([i \in 1..Len(v) |-> v[Len(v) + 1 - i]])

\* memory image of a host object holding value v, and the value an image denotes
Store(host, v) == IF host = "LE" THEN Rev(v) ELSE v
Load(host, img) == IF host = "LE" THEN Rev(img) ELSE img

\* the twelve helpers, as value functions, for the helper set `branch`
Helpers == {"CpuToBe", "BeToCpu", "CpuToLe", "LeToCpu"}
Helper(branch, fn, v) ==
  CASE fn \in {"CpuToBe", "BeToCpu"} -> IF branch = "LE" THEN Rev(v) ELSE v
    [] fn \in {"CpuToLe", "LeToCpu"} -> IF branch = "BE" THEN Rev(v) ELSE v
    [] fn = "Bswap"                  -> Rev(v)

(***************************************************************************)
(* T11: what the property demands of a correctly selected helper set       *)
(* (branch = host).                                                        *)
(***************************************************************************)
BigEndianImage(host, v)    == Store(host, Helper(host, "CpuToBe", v)) = v
LittleEndianImage(host, v) == Store(host, Helper(host, "CpuToLe", v)) = Rev(v)
Inverses(host, v) == /\ Helper(host, "BeToCpu", Helper(host, "CpuToBe", v)) = v
                     /\ Helper(host, "LeToCpu", Helper(host, "CpuToLe", v)) = v
                     /\ Helper(host, "Bswap", Helper(host, "Bswap", v)) = v
Mirror(v) == /\ Helper("LE", "CpuToBe", v) = Helper("BE", "CpuToLe", v)
             /\ Helper("LE", "CpuToLe", v) = Helper("BE", "CpuToBe", v)
             /\ Helper("LE", "BeToCpu", v) = Helper("BE", "LeToCpu", v)
             /\ Helper("LE", "LeToCpu", v) = Helper("BE", "BeToCpu", v)
=============================================================================
