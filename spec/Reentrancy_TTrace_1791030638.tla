---- MODULE Reentrancy_TTrace_1791030638 ----
EXTENDS Sequences, TLCExt, Toolbox, Naturals, TLC, Reentrancy

_expression ==
    LET Reentrancy_TEExpression == INSTANCE Reentrancy_TEExpression
    IN Reentrancy_TEExpression!expression
----

_trace ==
    LET Reentrancy_TETrace == INSTANCE Reentrancy_TETrace
    IN Reentrancy_TETrace!trace
----

_inv ==
    ~(
        TLCGet("level") = Len(_TETrace)
        /\
        res = (<<<<>>, <<>>>>)
        /\
        buf = (<<(0 :> 21 @@ 1 :> 0), (0 :> 0 @@ 1 :> 0)>>)
        /\
        pc = (<<[q |-> 1, call |-> 1, phase |-> "load"], [q |-> 0, call |-> 1, phase |-> "store"]>>)
        /\
        tmp = (<<0, 0>>)
        /\
        scratch = (21)
        /\
        shr = ((0 :> 7 @@ 1 :> 8))
    )
----

_init ==
    /\ shr = _TETrace[1].shr
    /\ scratch = _TETrace[1].scratch
    /\ res = _TETrace[1].res
    /\ buf = _TETrace[1].buf
    /\ pc = _TETrace[1].pc
    /\ tmp = _TETrace[1].tmp
----

_next ==
    /\ \E i,j \in DOMAIN _TETrace:
        /\ \/ /\ j = i + 1
              /\ i = TLCGet("level")
        /\ shr  = _TETrace[i].shr
        /\ shr' = _TETrace[j].shr
        /\ scratch  = _TETrace[i].scratch
        /\ scratch' = _TETrace[j].scratch
        /\ res  = _TETrace[i].res
        /\ res' = _TETrace[j].res
        /\ buf  = _TETrace[i].buf
        /\ buf' = _TETrace[j].buf
        /\ pc  = _TETrace[i].pc
        /\ pc' = _TETrace[j].pc
        /\ tmp  = _TETrace[i].tmp
        /\ tmp' = _TETrace[j].tmp

\* Uncomment the ASSUME below to write the states of the error trace
\* to the given file in Json format. Note that you can pass any tuple
\* to `JsonSerialize`. For example, a sub-sequence of _TETrace.
    \* ASSUME
    \*     LET J == INSTANCE Json
    \*         IN J!JsonSerialize("Reentrancy_TTrace_1791030638.json", _TETrace)

=============================================================================

 Note that you can extract this module `Reentrancy_TEExpression`
  to a dedicated file to reuse `expression` (the module in the 
  dedicated `Reentrancy_TEExpression.tla` file takes precedence 
  over the module `Reentrancy_TEExpression` below).

---- MODULE Reentrancy_TEExpression ----
EXTENDS Sequences, TLCExt, Toolbox, Naturals, TLC, Reentrancy

expression == 
    [
        \* To hide variables of the `Reentrancy` spec from the error trace,
        \* remove the variables below.  The trace will be written in the order
        \* of the fields of this record.
        shr |-> shr
        ,scratch |-> scratch
        ,res |-> res
        ,buf |-> buf
        ,pc |-> pc
        ,tmp |-> tmp
        
        \* Put additional constant-, state-, and action-level expressions here:
        \* ,_stateNumber |-> _TEPosition
        \* ,_shrUnchanged |-> shr = shr'
        
        \* Format the `shr` variable as Json value.
        \* ,_shrJson |->
        \*     LET J == INSTANCE Json
        \*     IN J!ToJson(shr)
        
        \* Lastly, you may build expressions over arbitrary sets of states by
        \* leveraging the _TETrace operator.  For example, this is how to
        \* count the number of times a spec variable changed up to the current
        \* state in the trace.
        \* ,_shrModCount |->
        \*     LET F[s \in DOMAIN _TETrace] ==
        \*         IF s = 1 THEN 0
        \*         ELSE IF _TETrace[s].shr # _TETrace[s-1].shr
        \*             THEN 1 + F[s-1] ELSE F[s-1]
        \*     IN F[_TEPosition - 1]
    ]

=============================================================================



Parsing and semantic processing can take forever if the trace below is long.
 In this case, it is advised to uncomment the module below to deserialize the
 trace from a generated binary file.

\*
\*---- MODULE Reentrancy_TETrace ----
\*EXTENDS IOUtils, TLC, Reentrancy
\*
\*trace == IODeserialize("Reentrancy_TTrace_1791030638.bin", TRUE)
\*
\*=============================================================================
\*

---- MODULE Reentrancy_TETrace ----
EXTENDS TLC, Reentrancy

trace == 
    <<
    ([res |-> <<<<>>, <<>>>>,buf |-> <<(0 :> 0 @@ 1 :> 0), (0 :> 0 @@ 1 :> 0)>>,pc |-> <<[q |-> 0, call |-> 1, phase |-> "load"], [q |-> 0, call |-> 1, phase |-> "load"]>>,tmp |-> <<0, 0>>,scratch |-> 0,shr |-> (0 :> 7 @@ 1 :> 8)]),
    ([res |-> <<<<>>, <<>>>>,buf |-> <<(0 :> 0 @@ 1 :> 0), (0 :> 0 @@ 1 :> 0)>>,pc |-> <<[q |-> 0, call |-> 1, phase |-> "store"], [q |-> 0, call |-> 1, phase |-> "load"]>>,tmp |-> <<0, 0>>,scratch |-> 11,shr |-> (0 :> 7 @@ 1 :> 8)]),
    ([res |-> <<<<>>, <<>>>>,buf |-> <<(0 :> 0 @@ 1 :> 0), (0 :> 0 @@ 1 :> 0)>>,pc |-> <<[q |-> 0, call |-> 1, phase |-> "store"], [q |-> 0, call |-> 1, phase |-> "store"]>>,tmp |-> <<0, 0>>,scratch |-> 21,shr |-> (0 :> 7 @@ 1 :> 8)]),
    ([res |-> <<<<>>, <<>>>>,buf |-> <<(0 :> 21 @@ 1 :> 0), (0 :> 0 @@ 1 :> 0)>>,pc |-> <<[q |-> 1, call |-> 1, phase |-> "load"], [q |-> 0, call |-> 1, phase |-> "store"]>>,tmp |-> <<0, 0>>,scratch |-> 21,shr |-> (0 :> 7 @@ 1 :> 8)])
    >>
----


=============================================================================

---- CONFIG Reentrancy_TTrace_1791030638 ----
CONSTANTS
    Threads = { 1 , 2 }
    K = 2
    SharedCells = { "scratch" }
    Calls = 1

INVARIANT
    _inv

CHECK_DEADLOCK
    \* CHECK_DEADLOCK off because of PROPERTY or INVARIANT above.
    FALSE

INIT
    _init

NEXT
    _next

CONSTANT
    _TETrace <- _trace

ALIAS
    _expression
=============================================================================
\* Generated on Sat Oct 03 12:30:39 UTC 2026