------------------------------- MODULE GenPdu -------------------------------
(***************************************************************************)
(* Bounded instances of PduStore used (a) to model-check its properties    *)
(* and (b) to enumerate transitions that are replayed into the C library:  *)
(* the state constraint `Emit` prints every explored transition as JSON.   *)
(* What is enumerated is selected by the constants:                        *)
(*   Scn     "get" | "set" | "init" | "bad" | "pairs" | "hdr"              *)
(*   GViews  the views to cover                                            *)
(*   NRand   number of pseudo-random background images                     *)
(*   Walk    TRUE: add walking-one/walking-zero images (every header bit)  *)
(*   Depth   number of operations per behaviour                            *)
(***************************************************************************)
EXTENDS PduStore, Json, FiniteSets
CONSTANTS Scn, GViews, NRand, Walk, Depth
VARIABLE n
gvars == <<mem, hb, out, step, n>>

(***************************************************************************)
(* Images                                                                  *)
(***************************************************************************)
PatByte(k, i) ==
  IF k = 0 THEN 0
  ELSE IF k = 1 THEN 255
  ELSE IF k = 2 THEN (IF i % 2 = 1 THEN 165 ELSE 90)
  ELSE IF k = 3 THEN (IF i % 2 = 1 THEN 90 ELSE 165)
  ELSE IF k = 4 THEN (37 * i + 11) % 256
  ELSE (((i * i * 7 + 13 * i * k + 101 * k * k + 29) % 251) + ((i * k) % 5)) % 256
Pat(k, len) == Mat([i \in 1..len |-> PatByte(k, i)])
BGs == 0..(4 + NRand)

WalkOne(len, p)  == Mat([i \in 1..len |-> IF (p \div 8) + 1 = i THEN P2[8 - (p % 8)] ELSE 0])
WalkZero(len, p) == Mat([i \in 1..len |-> IF (p \div 8) + 1 = i THEN 255 - P2[8 - (p % 8)] ELSE 255])

\* arena shapes: exact (no slack: header is the whole arena) and slack (3 leading, 5 trailing)
Arena(img, lead, trail) == Pat(4, lead) \o img \o Pat(3, trail)

StartImages(v) ==
  LET L == HdrLen[v] IN
    { [a |-> Pat(k, L), h |-> 0] : k \in BGs }
    \cup { [a |-> Arena(Pat(k, L), 3, 5), h |-> 3] : k \in BGs }
    \cup (IF Walk THEN { [a |-> WalkOne(L, p), h |-> 0] : p \in 0..(8*L - 1) }
                       \cup { [a |-> WalkZero(L, p), h |-> 0] : p \in 0..(8*L - 1) }
                  ELSE {})

(***************************************************************************)
(* Values per field width                                                  *)
(***************************************************************************)
OneBit(k) == Mat([j \in 1..8 |-> IF 8 - (k \div 8) = j THEN P2[(k % 8) + 1] ELSE 0])   \* 2^k, k in 0..63
AllFF  == Fill(8, 255)
AltA   == Fill(8, 170)
Alt5   == Fill(8, 85)
Vals(w) ==
  { Zero64, OneBit(0), Low(AllFF, w), AllFF, AltA, Alt5 }
  \cup (IF w < 64 THEN { OneBit(w) } ELSE {})                  \* one past the field: tests the modulus
  \cup { OneBit(k) : k \in 0..(IF w >= 64 THEN 63 ELSE w - 1) }  \* every single bit of the field
FewVals(w) == { Low(AltA, w), Low(Alt5, w) }

Paths(v) == {"generic", "dedicated"} \cup (IF v \in LegacyViews THEN {"legacy"} ELSE {})
InitPaths(v) == {"current"} \cup (IF v \in LegacyInitViews THEN {"legacy"} ELSE {})

Op(op, v, f, p, x, id) == [op |-> op, view |-> v, field |-> f, path |-> p, val |-> x, id |-> id]

GetOps(v)  == { Op("get", v, f, p, Zero64, "") : f \in FieldNames(v), p \in Paths(v) }
SetOps(v)  == UNION { { Op("set", v, f, p, x, "") : x \in Vals(FW(v, f)), p \in Paths(v) } : f \in FieldNames(v) }
FewSetOps(v) == UNION { { Op("set", v, f, p, x, "") : x \in FewVals(FW(v, f)), p \in Paths(v) } : f \in FieldNames(v) }
InitOps(v) == IF v \in InitViews
                THEN { Op("init", v, "", p, IF p = "legacy" /\ v = "Cvf" THEN x ELSE Zero64, "")
                         : p \in InitPaths(v), x \in { Zero64, V64(1), V64(2) } }
                ELSE {}

\* out-of-range identifier classes for the by-identifier entry points (C11)
BadIds(v) == { "max", "max+1", "255", "256", "65536", "2^31-1", "2^31", "2^32-1", "2^32-256" }
             \cup { "256+" \o f : f \in FieldNames(v) }
BadOps(v) ==
     { Op("badget", v, "", p, Zero64, id) : id \in BadIds(v), p \in Paths(v) \ {"dedicated"} }
  \cup { Op("badset", v, "", p, x, id) : id \in BadIds(v), p \in Paths(v) \ {"dedicated"}, x \in {AllFF, Zero64} }
  \cup { Op("nullget", v, f, p, Zero64, "") : f \in FieldNames(v), p \in Paths(v) }
  \cup { Op("nullset", v, f, p, AllFF, "") : f \in FieldNames(v), p \in Paths(v) }
  \cup (IF v \in InitViews THEN { Op("nullinit", v, "", p, Zero64, "") : p \in InitPaths(v) } ELSE {})
  \cup (IF v \in LegacyViews THEN { Op("nullout", v, f, "legacy", Zero64, "") : f \in FieldNames(v) } ELSE {})

OpsTable ==      \* constant-level: evaluated once per view
  [v \in GViews |->
     CASE Scn = "get"   -> GetOps(v)
       [] Scn = "set"   -> SetOps(v)
       [] Scn = "init"  -> InitOps(v)
       [] Scn = "bad"   -> BadOps(v)
       [] Scn = "pairs" -> FewSetOps(v) \cup InitOps(v)
       [] Scn = "hdr"   -> GetOps(v) \cup FewSetOps(v) \cup InitOps(v) \cup { Op("payload", v, "", "current", Zero64, "") }
       [] OTHER -> {}]
OpsAt(v, k) == OpsTable[v]

(***************************************************************************)
(* Behaviours: one buffer, a chosen view, Depth operations.                *)
(***************************************************************************)
ASSUME Buf = {1}
GInit ==
  \E v \in GViews : \E s \in StartImages(v) :
     /\ mem = [b \in Buf |-> s.a] /\ hb = [b \in Buf |-> s.h] /\ out = Sentinel /\ n = 0
     /\ step = Op("start", v, "", "", Zero64, "") @@
               [buf |-> 1, base |-> s.h, pre |-> s.a, post |-> s.a, ret |-> NoRet, rc |-> 0, out |-> Sentinel]
GNext ==
  /\ n < Depth /\ n' = n + 1
  /\ \E o \in OpsAt(step.view, n) : Do(1, o)
GSpec == GInit /\ [][GNext]_gvars

\* read-back value shipped with every "set" so the replayer can call the getters afterwards
Emit ==
  \/ step.op = "start"
  \/ PrintT(ToJson(step @@ [rb |-> IF step.op = "set"
                                     THEN GetSem(mem[1], hb[1], step.view, step.field) ELSE Zero64]))

\* "pairs": writes to distinct fields commute and a repeated write is idempotent (C05/T3,T4),
\* checked on the model by comparing with the swapped order
Commute ==
  [][ (step.op = "set" /\ step'.op = "set" /\ step.view = step'.view) =>
        LET m0 == step.pre  h == hb[1]
            a == SetSem(SetSem(m0, h, step.view, step.field, step.val), h, step'.view, step'.field, step'.val)
            b == SetSem(SetSem(m0, h, step'.view, step'.field, step'.val), h, step.view, step.field, step.val)
        IN  /\ (step.field # step'.field => a = b)
            /\ (step.field = step'.field /\ step.val = step'.val => mem'[1] = mem[1]) ]_gvars
=============================================================================
