------------------------------- MODULE GenPdu -------------------------------
(***************************************************************************)
(* Bounded instances of PduStore used (a) to model-check its properties    *)
(* and (b) to enumerate transitions that are replayed into the C library:  *)
(* the state constraint `Emit` prints every explored transition as JSON.   *)
(* What is enumerated is selected by the constants:                        *)
(*   Scn     "get" | "set" | "init" | "bad" | "pairs" | "hdr"              *)
(*           | "nearset" | "nearshared" | "nearinit" | "sentinel"          *)
(*           | "domain" | "alias"                                          *)
(*             (see Near-valid images)                                     *)
(*   GViews  the views to cover                                            *)
(*   NRand   number of pseudo-random background images                     *)
(*   Walk    TRUE: add walking-one/walking-zero images (every header bit)  *)
(*   Depth   number of operations per behaviour                            *)
(***************************************************************************)
EXTENDS PduStore, Json, FiniteSets
CONSTANTS Scn, GViews, NRand, Walk, Depth
VARIABLE n
gvars == <<mem, hb, out, step, n>>

(***************************************************************************)
(* Images                                                                  *)
(***************************************************************************)
PatByte(k, i) ==
  IF k = 0 THEN 0
  ELSE IF k = 1 THEN 255
  ELSE IF k = 2 THEN (IF i % 2 = 1 THEN 165 ELSE 90)
  ELSE IF k = 3 THEN (IF i % 2 = 1 THEN 90 ELSE 165)
  ELSE IF k = 4 THEN (37 * i + 11) % 256
  ELSE (((i * i * 7 + 13 * i * k + 101 * k * k + 29) % 251) + ((i * k) % 5)) % 256
Pat(k, len) == Mat([i \in 1..len |-> PatByte(k, i)])
BGs == 0..(4 + NRand)

WalkOne(len, p)  == Mat([i \in 1..len |-> IF (p \div 8) + 1 = i THEN P2[8 - (p % 8)] ELSE 0])
WalkZero(len, p) == Mat([i \in 1..len |-> IF (p \div 8) + 1 = i THEN 255 - P2[8 - (p % 8)] ELSE 255])

\* arena shapes: exact (no slack: header is the whole arena) and slack (3 leading, 5 trailing)
Arena(img, lead, trail) == Pat(4, lead) \o img \o Pat(3, trail)

PlainImages(v) ==
  LET L == HdrLen[v] IN
    { [a |-> Pat(k, L), h |-> 0] : k \in BGs }
    \cup { [a |-> Arena(Pat(k, L), 3, 5), h |-> 3] : k \in BGs }
    \cup (IF Walk THEN { [a |-> WalkOne(L, p), h |-> 0] : p \in 0..(8*L - 1) }
                       \cup { [a |-> WalkZero(L, p), h |-> 0] : p \in 0..(8*L - 1) }
                  ELSE {})

OneBit(k) == Mat([j \in 1..8 |-> IF 8 - (k \div 8) = j THEN P2[(k % 8) + 1] ELSE 0])   \* 2^k, k in 0..63
AllFF  == Fill(8, 255)
(***************************************************************************)
(* Near-valid images.  An operation may take a short cut when the buffer   *)
(* "already looks right" (value already in place, header already           *)
(* initialised).  Such a short cut is only reachable from prior contents   *)
(* that are related to the operation's own result, which no fixed or       *)
(* random background is.  So: take the result the specification assigns to *)
(* the operation, perturb it minimally - one bit flipped, one quadlet      *)
(* byte-reversed, canonical prefix followed by junk - and run the          *)
(* operation on that.                                                      *)
(***************************************************************************)
KVal == <<1, 35, 69, 103, 137, 171, 205, 239>>          \* 0x0123456789ABCDEF: no byte symmetry
NearVals(w) == { Low(KVal, w), Low(KVal, (w + 1) \div 2), Zero64 }
QuadsOf(v, f) == (FStart(v, f) \div 32)..((FStart(v, f) + FW(v, f) - 1) \div 32)
NearFields(v) == IF Scn = "nearshared" THEN { f \in FieldNames(v) : \E g \in Shared : v \in g.views /\ f \in g.names }
                 ELSE FieldNames(v)
\* arithmetic neighbours: the old value is one below / above the new one across a carry chain (2^k - 1 <-> 2^k, k on byte and
\* quadlet boundaries), on all-zero and all-one backgrounds (every flag of the header clear / set): incremental-update short cuts
CarryKs(w) == { k \in {8, 16, 24, 32, 40, 48, 56} : k < w }
CarryVals(w) == UNION { { OneBit(k), Low(AllFF, k) } : k \in CarryKs(w) }
NearSetImages(v) ==
  LET L == HdrLen[v] IN
  UNION { UNION { LET post == SetSem(Pat(5, L), 0, v, f, x) IN
                    { [a |-> FlipBit(post, p), h |-> 0, f |-> f, x |-> x] : p \in UNION { (32*q)..(32*q + 31) : q \in QuadsOf(v, f) } }
                    \cup { [a |-> RevQuad(post, q), h |-> 0, f |-> f, x |-> x] : q \in QuadsOf(v, f) }
                  : x \in NearVals(FW(v, f)) } : f \in NearFields(v) }
  \cup UNION { UNION { { [a |-> SetSem(Pat(b, L), 0, v, f, Low(AllFF, k)), h |-> 0, f |-> f, x |-> OneBit(k)],
                        [a |-> SetSem(Pat(b, L), 0, v, f, OneBit(k)), h |-> 0, f |-> f, x |-> Low(AllFF, k)] }
                      : k \in CarryKs(FW(v, f)), b \in {0, 1} } : f \in NearFields(v) }
NearInitImages(v) ==
  LET L == HdrLen[v]  c == CanonHdr(v) IN
     { [a |-> FlipBit(c, p), h |-> 0, f |-> "", x |-> Zero64] : p \in 0..(8*L - 1) }
  \cup { [a |-> SubSeq(c, 1, 4*q) \o SubSeq(Pat(k, L), 4*q + 1, L), h |-> 0, f |-> "", x |-> Zero64] : q \in 1..((L \div 4) - 1), k \in {1, 5} }
  \cup { [a |-> Arena(SubSeq(c, 1, 4) \o SubSeq(Pat(1, L), 5, L), 3, 5), h |-> 3, f |-> "", x |-> Zero64] }

\* Domain-valued states.  Validation or short cuts that couple two fields are written about *meaningful* values (a format code, a
\* bit depth, a channel count), which bit-pattern backgrounds never produce together.  All fields of at most 10 bits are set to
\* small numbers at once, 121 images per view built like an orthogonal array over the 11 values DomVals: every pair of small
\* fields takes every pair of these values in some image (row (i, j): field number t holds DomVals[(i + j*t) mod 11]).
DomVals == <<0, 1, 2, 3, 4, 5, 8, 16, 24, 32, 255>>
SmallFields(v) == LET fs == FieldsOf(v) IN SelectSeq([k \in 1..Len(fs) |-> fs[k].name], LAMBDA nm : FW(v, nm) <= 10)
RECURSIVE DomFill(_, _, _, _, _, _)
DomFill(m, v, fs, t, i, j) ==
  IF t > Len(fs) THEN m
  ELSE DomFill(SetSem(m, 0, v, fs[t], V64(DomVals[((i + j * t) % 11) + 1])), v, fs, t + 1, i, j)
DomainImages(v) ==
  { [a |-> DomFill(Fill(HdrLen[v], 0), v, SmallFields(v), 1, i, j), h |-> 0, f |-> "", x |-> Zero64] : i \in 0..10, j \in 0..10 }

\* values that collide with in-band error codes (-errno as an unsigned value of the field's width)
NegByte(e) == Mat([j \in 1..8 |-> IF j = 8 THEN 256 - e ELSE 255])      \* 2^64 - e, 1 <= e <= 255
Errnos == {1, 2, 5, 9, 11, 12, 14, 16, 22, 34, 61, 75, 95, 110}
SentinelVals(w) == { Low(NegByte(e), w) : e \in Errnos }
SentinelImages(v) ==
  LET L == HdrLen[v] IN
  UNION { { [a |-> SetSem(Pat(k, L), 0, v, f, x), h |-> 0, f |-> f, x |-> x] : x \in SentinelVals(FW(v, f)), k \in {0, 2} }
          : f \in { g \in FieldNames(v) : FW(v, g) >= 8 } }

(***************************************************************************)
(* Values per field width                                                  *)
(***************************************************************************)
AltA   == Fill(8, 170)
Alt5   == Fill(8, 85)
Vals(w) ==
  { Zero64, OneBit(0), Low(AllFF, w), AllFF, AltA, Alt5 }
  \cup (IF w < 64 THEN { OneBit(w) } ELSE {})                  \* one past the field: tests the modulus
  \cup { OneBit(k) : k \in 0..(IF w >= 64 THEN 63 ELSE w - 1) }  \* every single bit of the field
FewVals(w) == { Low(AltA, w), Low(Alt5, w) }

Paths(v) == {"generic", "dedicated"} \cup (IF v \in LegacyViews THEN {"legacy"} ELSE {})
InitPaths(v) == {"current"} \cup (IF v \in LegacyInitViews THEN {"legacy"} ELSE {})

Op(op, v, f, p, x, id) == [op |-> op, view |-> v, field |-> f, path |-> p, val |-> x, id |-> id]

GetOps(v)  == { Op("get", v, f, p, Zero64, "") : f \in FieldNames(v), p \in Paths(v) }
SetOps(v)  == UNION { { Op("set", v, f, p, x, "") : x \in Vals(FW(v, f)), p \in Paths(v) } : f \in FieldNames(v) }
FewSetOps(v) == UNION { { Op("set", v, f, p, x, "") : x \in FewVals(FW(v, f)), p \in Paths(v) } : f \in FieldNames(v) }
InitOps(v) == IF v \in InitViews
                THEN { Op("init", v, "", p, IF p = "legacy" /\ v = "Cvf" THEN x ELSE Zero64, "")
                         : p \in InitPaths(v), x \in { Zero64, V64(1), V64(2) } }
                ELSE {}

\* out-of-range identifier classes for the by-identifier entry points (C11)
\* "wrap<s>.<j>+<i>" = ceil(j * 2^32 / s) + i: identifiers whose product with a table element size s wraps modulo 2^32 to a
\* small number (an index scaled to a byte position before the range check)
WrapIds == UNION { { "wrap" \o ToString(s) \o "." \o ToString(j) \o "+" \o ToString(i) : j \in 1..(s - 1), i \in {0, 1} }
                   : s \in {2, 3, 4, 5, 6, 7, 8, 12, 16, 24} }
BadIds(v) == { "max", "max+1", "255", "256", "65536", "2^31-1", "2^31", "2^32-1", "2^32-256" }
             \cup { "256+" \o f : f \in FieldNames(v) } \cup WrapIds
BadOps(v) ==
     { Op("badget", v, "", p, Zero64, id) : id \in BadIds(v), p \in Paths(v) \ {"dedicated"} }
  \cup { Op("badset", v, "", p, x, id) : id \in BadIds(v), p \in Paths(v) \ {"dedicated"}, x \in {AllFF, Zero64} }
  \cup { Op("nullget", v, f, p, Zero64, "") : f \in FieldNames(v), p \in Paths(v) }
  \cup { Op("nullset", v, f, p, AllFF, "") : f \in FieldNames(v), p \in Paths(v) }
  \cup (IF v \in InitViews THEN { Op("nullinit", v, "", p, Zero64, "") : p \in InitPaths(v) } ELSE {})
  \cup (IF v \in LegacyViews THEN { Op("nullout", v, f, "legacy", Zero64, "") : f \in FieldNames(v) } ELSE {})

\* result object of a deprecated getter inside the buffer: over the field's own quadlet(s), over the header start, over the
\* quadlet behind the field (8 spare bytes behind the header so that the object always fits)
AliasOffs(v, f) == LET q == FStart(v, f) \div 32 IN { 4*q, 0, FStart(v, f) \div 8, 4*q + 4, IF q > 0 THEN 4*q - 4 ELSE 0 }
AliasOps(v) == IF v \in LegacyViews THEN UNION { { Op("getalias", v, f, "legacy", V64(k), "") : k \in AliasOffs(v, f) } : f \in FieldNames(v) } ELSE {}
AliasImages(v) == { [a |-> Pat(k, HdrLen[v]) \o Pat(3, 8), h |-> 0, f |-> "", x |-> Zero64] : k \in {1, 2, 5} }

StartImages(v) ==
  CASE Scn \in {"nearset", "nearshared"} -> NearSetImages(v)
    [] Scn = "nearinit" -> IF v \in InitViews THEN NearInitImages(v) ELSE {}
    [] Scn = "sentinel" -> SentinelImages(v)
    [] Scn = "domain"   -> DomainImages(v)
    [] Scn = "alias"    -> AliasImages(v)
    [] OTHER -> { [a |-> s.a, h |-> s.h, f |-> "", x |-> Zero64] : s \in PlainImages(v) }

OpsTable ==      \* constant-level: evaluated once per view
  [v \in GViews |->
     CASE Scn = "get"   -> GetOps(v)
       [] Scn = "set"   -> SetOps(v)
       [] Scn = "init"  -> InitOps(v)
       [] Scn = "nearinit" -> InitOps(v)
       [] Scn \in {"nearset", "nearshared"} -> UNION { { Op("set", v, f, p, x, "") : x \in NearVals(FW(v, f)) \cup CarryVals(FW(v, f)), p \in Paths(v) } : f \in NearFields(v) }
       [] Scn = "sentinel" -> GetOps(v)
       [] Scn = "domain"   -> GetOps(v) \cup FewSetOps(v) \cup InitOps(v)
       [] Scn = "alias"    -> AliasOps(v)
       [] Scn = "bad"   -> BadOps(v)
       [] Scn = "pairs" -> FewSetOps(v) \cup InitOps(v)
       [] Scn = "hdr"   -> GetOps(v) \cup FewSetOps(v) \cup InitOps(v) \cup { Op("payload", v, "", "current", Zero64, "") }
       [] OTHER -> {}]
OpsAt(v, k) == OpsTable[v]

(***************************************************************************)
(* Behaviours: one buffer, a chosen view, Depth operations.                *)
(***************************************************************************)
ASSUME Buf = {1}
GInit ==
  \E v \in GViews : \E s \in StartImages(v) :
     /\ mem = [b \in Buf |-> s.a] /\ hb = [b \in Buf |-> s.h] /\ out = Sentinel /\ n = 0
     /\ step = Op("start", v, s.f, "", s.x, "") @@
               [buf |-> 1, base |-> s.h, pre |-> s.a, post |-> s.a, ret |-> NoRet, rc |-> 0, out |-> Sentinel]
GNext ==
  /\ n < Depth /\ n' = n + 1
  /\ \E o \in OpsAt(step.view, n) :
        /\ (Scn \in {"nearset", "nearshared", "sentinel"} /\ n = 0) => o.field = step.field          \* the operation the image was prepared for
        /\ (Scn \in {"nearset", "nearshared"} /\ n = 0) => o.val = step.val
        /\ Do(1, o)
GSpec == GInit /\ [][GNext]_gvars

\* read-back value shipped with every "set" so the replayer can call the getters afterwards
Emit ==
  \/ step.op = "start"
  \/ PrintT(ToJson(step @@ [rb |-> IF step.op = "set"
                                     THEN GetSem(mem[1], hb[1], step.view, step.field) ELSE Zero64]))

\* "pairs": writes to distinct fields commute and a repeated write is idempotent (C05/T3,T4),
\* checked on the model by comparing with the swapped order
Commute ==
  [][ (step.op = "set" /\ step'.op = "set" /\ step.view = step'.view) =>
        LET m0 == step.pre  h == hb[1]
            a == SetSem(SetSem(m0, h, step.view, step.field, step.val), h, step'.view, step'.field, step'.val)
            b == SetSem(SetSem(m0, h, step'.view, step'.field, step'.val), h, step.view, step.field, step.val)
        IN  /\ (step.field # step'.field => a = b)
            /\ (step.field = step'.field /\ step.val = step'.val => mem'[1] = mem[1]) ]_gvars
=============================================================================
