----------------------------- MODULE DatagramGen -----------------------------
(***************************************************************************)
(* C18: an adversarial grammar of datagrams for every example listener.    *)
(*                                                                         *)
(* For each listener a well-formed datagram is built with the reference    *)
(* encoders of the specification (InitSem / SetSem / Build / PutPath /     *)
(* PutData), then mutated structurally: every length field set to 0, to    *)
(* one unit more or less than the truth, to its maximum and beyond the     *)
(* datagram; zero-length and over-long ACF messages; wrong types; each     *)
(* validity field wrong one at a time; truncation at every structural      *)
(* boundary and one byte either side; over-long datagrams; strings without *)
(* terminator.  TLC enumerates the (listener, mode, base, mutation) space  *)
(* and prints every case - alone and followed by the well-formed datagram  *)
(* (the listener must still handle the next one).                          *)
(***************************************************************************)
EXTENDS VssCodec, CanBuild, Json, FiniteSets, TLC
CONSTANTS Listener          \* "can" | "cvf" | "aaf" | "crf" | "hello" | "vss"
VARIABLES c
ASSUME Buf = {1}

StreamId1 == <<170, 187, 204, 221, 238, 255, 0, 1>>
StreamId2 == <<170, 187, 204, 221, 238, 255, 0, 2>>
Bytes(n, s) == Mat([i \in 1..n |-> ((i * 31 + s) % 251) + 1])              \* never 0: no accidental terminator
Set2(m, h, v, f, x) == SetSem(m, h, v, f, V64(x))
RECURSIVE SetAll(_, _, _, _)
SetAll(m, h, v, fs) == IF fs = << >> THEN m ELSE SetAll(Set2(m, h, v, fs[1][1], fs[1][2]), h, v, Tail(fs))

\* ---- control-format wrappers: optional UDP word, TSCF or NTSCF header, body
CfHdr(tscf, len) ==
  IF tscf = 1 THEN SetSem(Set2(Set2(InitSem(Fill(24, 0), 0, "Tscf"), 0, "Tscf", "stream_data_length", len), 0, "Tscf", "tv", 0), 0, "Tscf", "stream_id", StreamId1)
  ELSE SetSem(Set2(InitSem(Fill(12, 0), 0, "Ntscf"), 0, "Ntscf", "ntscf_data_length", len), 0, "Ntscf", "stream_id", StreamId1)
Wrap(udp, tscf, body, declared) == (IF udp = 1 THEN <<0, 0, 0, 7>> ELSE << >>) \o CfHdr(tscf, declared) \o body

\* ---- ACF messages
CanMsg(len, fd, id) == Set2(Build(InitSem(Fill(MsgLen("full", len), 0), 0, "Can"), 0, "full", V64(id), fd, Bytes(len, 3)), 0, "Can", "mtv", 1)
PadBytes(m) == m \o Fill((4 - (Len(m) % 4)) % 4, 0)
GpcMsg(text, quadlets) == Set2(InitSem(Fill(8, 0), 0, "Gpc"), 0, "Gpc", "acf_msg_length", quadlets) \o text
VssMsg(mode, dt, path, val) ==
  LET total == VH + Len(PathWire(mode, path)) + Len(DataWire(dt, val))
      a == Set2(Set2(InitSem(Fill(total, 0), 0, "Vss"), 0, "Vss", "addr_mode", mode), 0, "Vss", "vss_datatype", dt)
  IN  PadBytes(PutData(PutPath(a, 0, path), 0, val))

\* ---- stream PDUs
CvfPdu(datalen, sdl, seq) ==
  SetAll(SetSem(InitSem(Fill(24, 0), 0, "Cvf"), 0, "Cvf", "stream_id", StreamId1), 0, "Cvf",
         << <<"tv", 1>>, <<"format_subtype", 1>>, <<"sequence_num", seq>>, <<"stream_data_length", sdl>>, <<"ptv", 1>> >>)
AafHdr(fields) ==
  SetAll(SetSem(InitSem(Fill(24, 0), 0, "Pcm"), 0, "Pcm", "stream_id", StreamId1), 0, "Pcm", fields)
AafGood(datalen, chans, seq) ==
  << <<"tv", 1>>, <<"sp", 0>>, <<"sequence_num", seq>>, <<"format", 4>>, <<"nsr", 5>>, <<"channels_per_frame", chans>>,
     <<"bit_depth", 16>>, <<"stream_data_length", datalen>> >>
CrfHdr(fields) ==
  SetAll(SetSem(InitSem(Fill(20, 0), 0, "Crf"), 0, "Crf", "stream_id", StreamId2), 0, "Crf", fields)
CrfGood(seq) == << <<"type", 1>>, <<"sequence_num", seq>>, <<"pull", 0>>, <<"base_frequency", 48000>>, <<"crf_data_length", 48>>,
                   <<"timestamp_interval", 160>> >>
RECURSIVE Rep(_, _)
Rep(m, k) == IF k = 0 THEN << >> ELSE m \o Rep(m, k - 1)
Replace(fs, name, x) == [i \in 1..Len(fs) |-> IF fs[i][1] = name THEN <<name, x>> ELSE fs[i]]

\* a case: [class, mode (up to three small numbers), bytes]
Case(cl, m0, m1, m2, b) == [class |-> cl, m0 |-> m0, m1 |-> m1, m2 |-> m2, bytes |-> b]
Cuts(d, marks) == { k \in 0..Len(d) : \E x \in marks : k \in {x - 1, x, x + 1} } \cup {0, 1, 2, 3, Len(d) - 1}
Prefix(d, k) == SubBytes(d, 0, k)

(***************************************************************************)
(* per-listener case sets                                                  *)
(***************************************************************************)
CanCases ==
  UNION { UNION {
    LET hl == (IF udp = 1 THEN 4 ELSE 0) + (IF tscf = 1 THEN 24 ELSE 12)
        m1 == CanMsg(IF fd = 1 THEN 12 ELSE 8, fd, 291)
        m2 == CanMsg(3, fd, 2048)
        good == Wrap(udp, tscf, m1 \o m2, Len(m1) + Len(m2))
        one(x, decl) == Wrap(udp, tscf, x, decl)
    IN  { Case("good", udp, fd, 0, good) }
        \cup { Case("declared-length", udp, fd, 0, Wrap(udp, tscf, m1 \o m2, dl)) : dl \in {0, 4, Len(m1), Len(m1) + Len(m2) + 4, 1500, 2047} }
        \cup { Case("acf-length", udp, fd, 0, one(Set2(m1, 0, "Can", "acf_msg_length", q), Len(m1))) : q \in {0, 1, 3, 5, 20, 21, 100, 511} }
        \cup { Case("acf-pad", udp, fd, 0, one(Set2(m2, 0, "Can", "pad", pd), Len(m2))) : pd \in {0, 2, 3} }
        \cup { Case("acf-type", udp, fd, 0, one(Set2(m1, 0, "Can", "acf_msg_type", ty), Len(m1))) : ty \in {0, 2, 66, 127} }
        \cup { Case("payload-too-long-for-frame", udp, fd, 0, one(CanMsg(ln, fd, 5), MsgLen("full", ln))) : ln \in {9, 16, 64, 65, 72, 200, 236} }
        \cup { Case("subtype", udp, fd, 0, Set2(good, IF udp = 1 THEN 4 ELSE 0, "CommonHeader", "subtype", st)) : st \in {0, 2, 127, 255} }
        \cup { Case("truncated", udp, fd, 0, Prefix(good, k)) : k \in Cuts(good, {hl, hl + 16, hl + Len(m1), hl + Len(m1) + 16}) }
        \cup { Case("eff-missing", udp, fd, 0, one(Set2(m2, 0, "Can", "eff", 0), Len(m2))) }
        \* a later message that announces more than what is left of the payload (alone, and in a full-size datagram)
        \cup { Case("later-acf-overshoots", udp, fd, 0, Wrap(udp, tscf, m1 \o Set2(m2, 0, "Can", "acf_msg_length", ql), Len(m1) + Len(m2))) : ql \in {6, 7, 10, 20} }
        \cup { Case("later-acf-overshoots-full-buffer", udp, fd, 0,
                     \* messages of 20 and 24 bytes fill the datagram so that the last header ends exactly at byte 1500
                     LET n4 == (1500 - hl - 16) \div 4
                         y  == CHOOSE y \in 0..4 : (n4 - 6 * y) % 5 = 0
                         x  == (n4 - 6 * y) \div 5
                         body == Rep(CanMsg(4, fd, 3), x) \o Rep(CanMsg(8, fd, 4), y) \o Set2(CanMsg(0, fd, 7), 0, "Can", "acf_msg_length", ql)
                     IN Wrap(udp, tscf, body, Len(body))) : ql \in {5, 6} }
        \* a chain of well-formed messages that ends r bytes before the end of a (nearly) full-size datagram, followed by the first
        \* r bytes of another CAN header: whatever is read of that header beyond its r bytes lies behind the receive buffer
        \cup { Case("trailing-header-fragment-full-buffer", udp, fd, 0,
                     LET n4 == (1500 - hl - r) \div 4
                         y  == CHOOSE y \in 0..4 : (n4 - 6 * y) % 5 = 0
                         x  == (n4 - 6 * y) \div 5
                         body == Rep(CanMsg(4, fd, 3), x) \o Rep(CanMsg(8, fd, 4), y) \o Prefix(CanMsg(8, fd, 9), r)
                     IN Wrap(udp, tscf, body, Len(body))) : r \in {1, 2, 3, 4, 8, 12, 15} }
    : tscf \in {0, 1} } : udp \in {0, 1}, fd \in {0, 1} }

CvfCases ==
  LET body == Fill(4, 0) \o Bytes(100, 5)
      good == CvfPdu(100, 104, 0) \o body
  IN  { Case("good", 0, 0, 0, good) }
      \cup { Case("stream-data-length", 0, 0, 0, CvfPdu(100, sdl, 0) \o body) : sdl \in {0, 1, 3, 4, 5, 103, 105, 1404, 1405, 1500, 65535} }
      \cup { Case("max-payload", 0, 0, 0, CvfPdu(1400, 1404, 0) \o Fill(4, 0) \o Bytes(1400, 1)) }
      \cup { Case("truncated", 0, 0, 0, Prefix(good, k)) : k \in Cuts(good, {4, 24, 28}) }
      \cup { Case("field-" \o f[1], 0, 0, 0, Set2(good, 0, "Cvf", f[1], f[2])) :
               f \in { <<"subtype", 2>>, <<"version", 1>>, <<"tv", 0>>, <<"format", 0>>, <<"format_subtype", 0>>, <<"sequence_num", 77>> } }

AafCases ==
  LET good == AafHdr(AafGood(4, 2, 0)) \o Bytes(4, 2) IN
  { Case("good", 0, 0, 0, good) }
  \cup { Case("size", 0, 0, 0, IF k <= Len(good) THEN Prefix(good, k) ELSE good \o Bytes(k - Len(good), 1)) : k \in {0, 1, 23, 24, 27, 29, 100, 1500} }
  \cup { Case("field-" \o f[1], 0, 0, 0, AafHdr(Replace(AafGood(4, 2, 0), f[1], f[2])) \o Bytes(4, 2)) :
           f \in { <<"tv", 0>>, <<"sp", 1>>, <<"format", 2>>, <<"nsr", 1>>, <<"channels_per_frame", 1023>>, <<"bit_depth", 24>>,
                   <<"stream_data_length", 0>>, <<"stream_data_length", 65535>>, <<"sequence_num", 200>> } }
  \cup { Case("subtype", 0, 0, 0, Set2(good, 0, "Pcm", "subtype", st)) : st \in {0, 3, 4, 255} }

CrfCases ==
  UNION {
    LET crf == CrfHdr(CrfGood(0)) \o Bytes(48, 4)
        aaf == AafHdr(AafGood(24, 2, 0)) \o Bytes(24, 6)
    IN  { Case("good-crf", md, 0, 0, crf), Case("good-aaf", md, 0, 0, aaf) }
        \cup { Case("size", md, 0, 0, IF k <= Len(crf) THEN Prefix(crf, k) ELSE crf \o Bytes(k - Len(crf), 1)) : k \in {0, 1, 19, 20, 47, 48, 67, 69, 1500} }
        \cup { Case("crf-field-" \o f[1], md, 0, 0, CrfHdr(Replace(CrfGood(0), f[1], f[2])) \o Bytes(48, 4)) :
                 f \in { <<"type", 0>>, <<"pull", 1>>, <<"base_frequency", 0>>, <<"base_frequency", 44100>>, <<"crf_data_length", 0>>,
                         <<"crf_data_length", 65535>>, <<"timestamp_interval", 0>>, <<"timestamp_interval", 65535>>, <<"sequence_num", 9>> } }
        \cup { Case("crf-fs", md, 0, 0, Set2(crf, 0, "Crf", "fs", 1)), Case("crf-sv", md, 0, 0, Set2(crf, 0, "Crf", "sv", 0)) }
        \cup { Case("aaf-field-" \o f[1], md, 0, 0, AafHdr(Replace(AafGood(24, 2, 0), f[1], f[2])) \o Bytes(24, 6)) :
                 f \in { <<"tv", 0>>, <<"nsr", 1>>, <<"stream_data_length", 0>>, <<"channels_per_frame", 8>>, <<"sequence_num", 200>> } }
        \cup { Case("subtype", md, 0, 0, Set2(sz, 0, "CommonHeader", "subtype", st)) : st \in {0, 3, 5, 130, 255}, sz \in {crf, aaf} }
        \* a well-formed AAF PDU whose presentation time is not a value the recovered (or free-wheeling) media clock ever takes
        \cup { Case("aaf-timestamp-off-media-clock-grid", md, 0, 0, AafHdr(AafGood(24, 2, 0) \o << <<"avtp_timestamp", t>> >>) \o Bytes(24, 6)) : t \in {1, 7, 125001, 2147483647} }
    : md \in {0, 1} }

HelloCases ==
  UNION { UNION {
    LET text == <<72, 105, 33, 0>>                         \* "Hi!" with terminator (one quadlet)
        msg  == GpcMsg(text, 3)
        good == Wrap(udp, tscf, msg, Len(msg))
        hl   == (IF udp = 1 THEN 4 ELSE 0) + (IF tscf = 1 THEN 24 ELSE 12)
        noterm == GpcMsg(Bytes(1500 - hl - 8, 11), 3)       \* fills the receive buffer, no terminator anywhere
    IN  { Case("good", udp, 0, 0, good) }
        \cup { Case("unterminated-string", udp, 0, 0, Wrap(udp, tscf, GpcMsg(<<72, 105, 33, 33>>, 3), 12)) }
        \cup { Case("unterminated-full-buffer", udp, 0, 0, Wrap(udp, tscf, noterm, Len(noterm))) }
        \* the longest text the listener accepts (25 quadlets), one byte value throughout: high bytes, control and escape characters,
        \* DEL, format-string characters - whatever the text is shown with must cope with each class at full length
        \cup { LET m == GpcMsg(Fill(92, b), 25) IN Case("text-full-length-byte-" \o ToString(b), udp, 0, 0, Wrap(udp, tscf, m, Len(m))) : b \in {1, 10, 27, 37, 92, 127, 128, 200, 255} }
        \cup { Case("acf-length", udp, 0, 0, Wrap(udp, tscf, GpcMsg(text, q), 12)) : q \in {0, 1, 2, 25, 26, 511} }
        \cup { Case("acf-type", udp, 0, 0, Wrap(udp, tscf, Set2(msg, 0, "Gpc", "acf_msg_type", ty), 12)) : ty \in {0, 1, 66} }
        \cup { Case("truncated", udp, 0, 0, Prefix(good, k)) : k \in Cuts(good, {hl, hl + 8}) }
        \cup { Case("subtype", udp, 0, 0, Set2(good, IF udp = 1 THEN 4 ELSE 0, "CommonHeader", "subtype", st)) : st \in {0, 2, 255} }
    : tscf \in {0, 1} } : udp \in {0, 1} }

VssCases ==
  UNION { UNION {
    LET path == <<86, 101, 104, 46, 83>>
        fl   == <<66, 40, 0, 0>>                             \* 42.0f
        hl   == (IF udp = 1 THEN 4 ELSE 0) + (IF tscf = 1 THEN 24 ELSE 12)
        W(m) == Wrap(udp, tscf, m, Len(m))
        good == W(VssMsg(1, 9, <<0, 0, 0, 42>>, fl))
    IN  { Case("good-static-float", udp, 0, 0, good) }
        \cup { Case("interop-path", udp, 0, 0, W(VssMsg(0, 9, path, fl))) }
        \cup { Case("interop-empty-path", udp, 0, 0, W(VssMsg(0, 9, << >>, fl))) }
        \cup { Case("good-interop-long-path", udp, 0, 0, W(VssMsg(0, 9, Bytes(1400, 7), fl))) }
        \cup { Case("reserved-addr-mode", udp, 0, 0, W(Set2(VssMsg(1, 9, <<0, 0, 0, 42>>, fl), 0, "Vss", "addr_mode", am))) : am \in {2, 3} }
        \cup { Case("datatype-" \o ToString(dt), udp, 0, 0, W(VssMsg(1, dt, <<0, 0, 0, 42>>, Bytes(ElemSize(dt), 1)))) : dt \in {0, 6, 10} }
        \cup { Case("variable-datatype-" \o ToString(dt), udp, 0, 0, W(VssMsg(1, dt, <<0, 0, 0, 42>>, Bytes(8, 3)))) : dt \in {11, 128, 130, 138, 139} }
        \cup { Case("reserved-datatype", udp, 0, 0, W(Set2(VssMsg(1, 9, <<0, 0, 0, 42>>, fl), 0, "Vss", "vss_datatype", 200))) }
        \cup { Case("interop-path-length-beyond", udp, 0, 0, W(Overlay(VssMsg(0, 9, path, fl), VH, BE16(pl)))) : pl \in {6, 100, 1500, 65535} }
        \cup { Case("acf-type", udp, 0, 0, W(Set2(VssMsg(1, 9, <<0, 0, 0, 42>>, fl), 0, "Vss", "acf_msg_type", ty))) : ty \in {0, 1, 67} }
        \cup { Case("truncated", udp, 0, 0, Prefix(good, k)) : k \in Cuts(good, {hl, hl + 12, hl + 16}) }
    : tscf \in {0, 1} } : udp \in {0, 1} }

Cases == CASE Listener = "can" -> CanCases [] Listener = "cvf" -> CvfCases [] Listener = "aaf" -> AafCases
           [] Listener = "crf" -> CrfCases [] Listener = "hello" -> HelloCases [] Listener = "vss" -> VssCases

Init == c \in Cases /\ mem = << >> /\ hb = << >> /\ out = Sentinel /\ step = << >>
Next == UNCHANGED <<c, mem, hb, out, step>>
Spec == Init /\ [][Next]_<<c, mem, hb, out, step>>
\* every case is a byte sequence that fits a datagram
Sane == IsMem(c.bytes) /\ Len(c.bytes) <= 1500
Emit == PrintT(ToJson([listener |-> Listener] @@ c))
=============================================================================
