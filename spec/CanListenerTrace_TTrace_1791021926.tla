---- MODULE CanListenerTrace_TTrace_1791021926 ----
EXTENDS Sequences, TLCExt, CanListenerTrace, Toolbox, Naturals, TLC

_expression ==
    LET CanListenerTrace_TEExpression == INSTANCE CanListenerTrace_TEExpression
    IN CanListenerTrace_TEExpression!expression
----

_trace ==
    LET CanListenerTrace_TETrace == INSTANCE CanListenerTrace_TETrace
    IN CanListenerTrace_TETrace!trace
----

_inv ==
    ~(
        TLCGet("level") = Len(_TETrace)
        /\
        wire = (<<>>)
        /\
        mem = (<<>>)
        /\
        nsent = (0)
        /\
        pending = (<<>>)
        /\
        outq = (<<>>)
        /\
        step = (<<>>)
        /\
        hb = (<<>>)
        /\
        l = (26)
        /\
        inq = (<<>>)
        /\
        out = (<<165, 90, 165, 90, 165, 90, 165, 90>>)
    )
----

_init ==
    /\ l = _TETrace[1].l
    /\ inq = _TETrace[1].inq
    /\ step = _TETrace[1].step
    /\ hb = _TETrace[1].hb
    /\ wire = _TETrace[1].wire
    /\ pending = _TETrace[1].pending
    /\ nsent = _TETrace[1].nsent
    /\ outq = _TETrace[1].outq
    /\ mem = _TETrace[1].mem
    /\ out = _TETrace[1].out
----

_next ==
    /\ \E i,j \in DOMAIN _TETrace:
        /\ \/ /\ j = i + 1
              /\ i = TLCGet("level")
        /\ l  = _TETrace[i].l
        /\ l' = _TETrace[j].l
        /\ inq  = _TETrace[i].inq
        /\ inq' = _TETrace[j].inq
        /\ step  = _TETrace[i].step
        /\ step' = _TETrace[j].step
        /\ hb  = _TETrace[i].hb
        /\ hb' = _TETrace[j].hb
        /\ wire  = _TETrace[i].wire
        /\ wire' = _TETrace[j].wire
        /\ pending  = _TETrace[i].pending
        /\ pending' = _TETrace[j].pending
        /\ nsent  = _TETrace[i].nsent
        /\ nsent' = _TETrace[j].nsent
        /\ outq  = _TETrace[i].outq
        /\ outq' = _TETrace[j].outq
        /\ mem  = _TETrace[i].mem
        /\ mem' = _TETrace[j].mem
        /\ out  = _TETrace[i].out
        /\ out' = _TETrace[j].out

\* Uncomment the ASSUME below to write the states of the error trace
\* to the given file in Json format. Note that you can pass any tuple
\* to `JsonSerialize`. For example, a sub-sequence of _TETrace.
    \* ASSUME
    \*     LET J == INSTANCE Json
    \*         IN J!JsonSerialize("CanListenerTrace_TTrace_1791021926.json", _TETrace)

=============================================================================

 Note that you can extract this module `CanListenerTrace_TEExpression`
  to a dedicated file to reuse `expression` (the module in the 
  dedicated `CanListenerTrace_TEExpression.tla` file takes precedence 
  over the module `CanListenerTrace_TEExpression` below).

---- MODULE CanListenerTrace_TEExpression ----
EXTENDS Sequences, TLCExt, CanListenerTrace, Toolbox, Naturals, TLC

expression == 
    [
        \* To hide variables of the `CanListenerTrace` spec from the error trace,
        \* remove the variables below.  The trace will be written in the order
        \* of the fields of this record.
        l |-> l
        ,inq |-> inq
        ,step |-> step
        ,hb |-> hb
        ,wire |-> wire
        ,pending |-> pending
        ,nsent |-> nsent
        ,outq |-> outq
        ,mem |-> mem
        ,out |-> out
        
        \* Put additional constant-, state-, and action-level expressions here:
        \* ,_stateNumber |-> _TEPosition
        \* ,_lUnchanged |-> l = l'
        
        \* Format the `l` variable as Json value.
        \* ,_lJson |->
        \*     LET J == INSTANCE Json
        \*     IN J!ToJson(l)
        
        \* Lastly, you may build expressions over arbitrary sets of states by
        \* leveraging the _TETrace operator.  For example, this is how to
        \* count the number of times a spec variable changed up to the current
        \* state in the trace.
        \* ,_lModCount |->
        \*     LET F[s \in DOMAIN _TETrace] ==
        \*         IF s = 1 THEN 0
        \*         ELSE IF _TETrace[s].l # _TETrace[s-1].l
        \*             THEN 1 + F[s-1] ELSE F[s-1]
        \*     IN F[_TEPosition - 1]
    ]

=============================================================================



Parsing and semantic processing can take forever if the trace below is long.
 In this case, it is advised to uncomment the module below to deserialize the
 trace from a generated binary file.

\*
\*---- MODULE CanListenerTrace_TETrace ----
\*EXTENDS IOUtils, CanListenerTrace, TLC
\*
\*trace == IODeserialize("CanListenerTrace_TTrace_1791021926.bin", TRUE)
\*
\*=============================================================================
\*

---- MODULE CanListenerTrace_TETrace ----
EXTENDS CanListenerTrace, TLC

trace == 
    <<
    ([wire |-> <<>>,mem |-> <<>>,nsent |-> 0,pending |-> <<>>,outq |-> <<>>,step |-> <<>>,hb |-> <<>>,l |-> 1,inq |-> <<>>,out |-> <<165, 90, 165, 90, 165, 90, 165, 90>>]),
    ([wire |-> <<>>,mem |-> <<>>,nsent |-> 0,pending |-> <<>>,outq |-> <<>>,step |-> <<>>,hb |-> <<>>,l |-> 2,inq |-> <<>>,out |-> <<165, 90, 165, 90, 165, 90, 165, 90>>]),
    ([wire |-> <<>>,mem |-> <<>>,nsent |-> 0,pending |-> <<>>,outq |-> <<>>,step |-> <<>>,hb |-> <<>>,l |-> 3,inq |-> <<>>,out |-> <<165, 90, 165, 90, 165, 90, 165, 90>>]),
    ([wire |-> <<>>,mem |-> <<>>,nsent |-> 0,pending |-> <<>>,outq |-> <<>>,step |-> <<>>,hb |-> <<>>,l |-> 4,inq |-> <<>>,out |-> <<165, 90, 165, 90, 165, 90, 165, 90>>]),
    ([wire |-> <<>>,mem |-> <<>>,nsent |-> 0,pending |-> <<>>,outq |-> <<>>,step |-> <<>>,hb |-> <<>>,l |-> 5,inq |-> <<>>,out |-> <<165, 90, 165, 90, 165, 90, 165, 90>>]),
    ([wire |-> <<>>,mem |-> <<>>,nsent |-> 0,pending |-> <<>>,outq |-> <<>>,step |-> <<>>,hb |-> <<>>,l |-> 6,inq |-> <<>>,out |-> <<165, 90, 165, 90, 165, 90, 165, 90>>]),
    ([wire |-> <<>>,mem |-> <<>>,nsent |-> 0,pending |-> <<>>,outq |-> <<>>,step |-> <<>>,hb |-> <<>>,l |-> 7,inq |-> <<>>,out |-> <<165, 90, 165, 90, 165, 90, 165, 90>>]),
    ([wire |-> <<>>,mem |-> <<>>,nsent |-> 0,pending |-> <<>>,outq |-> <<>>,step |-> <<>>,hb |-> <<>>,l |-> 8,inq |-> <<>>,out |-> <<165, 90, 165, 90, 165, 90, 165, 90>>]),
    ([wire |-> <<>>,mem |-> <<>>,nsent |-> 0,pending |-> <<>>,outq |-> <<>>,step |-> <<>>,hb |-> <<>>,l |-> 9,inq |-> <<>>,out |-> <<165, 90, 165, 90, 165, 90, 165, 90>>]),
    ([wire |-> <<>>,mem |-> <<>>,nsent |-> 0,pending |-> <<>>,outq |-> <<>>,step |-> <<>>,hb |-> <<>>,l |-> 10,inq |-> <<>>,out |-> <<165, 90, 165, 90, 165, 90, 165, 90>>]),
    ([wire |-> <<>>,mem |-> <<>>,nsent |-> 0,pending |-> <<>>,outq |-> <<>>,step |-> <<>>,hb |-> <<>>,l |-> 11,inq |-> <<>>,out |-> <<165, 90, 165, 90, 165, 90, 165, 90>>]),
    ([wire |-> <<>>,mem |-> <<>>,nsent |-> 0,pending |-> <<>>,outq |-> <<>>,step |-> <<>>,hb |-> <<>>,l |-> 12,inq |-> <<>>,out |-> <<165, 90, 165, 90, 165, 90, 165, 90>>]),
    ([wire |-> <<>>,mem |-> <<>>,nsent |-> 0,pending |-> <<>>,outq |-> <<>>,step |-> <<>>,hb |-> <<>>,l |-> 13,inq |-> <<>>,out |-> <<165, 90, 165, 90, 165, 90, 165, 90>>]),
    ([wire |-> <<>>,mem |-> <<>>,nsent |-> 0,pending |-> <<>>,outq |-> <<>>,step |-> <<>>,hb |-> <<>>,l |-> 14,inq |-> <<>>,out |-> <<165, 90, 165, 90, 165, 90, 165, 90>>]),
    ([wire |-> <<>>,mem |-> <<>>,nsent |-> 0,pending |-> <<>>,outq |-> <<>>,step |-> <<>>,hb |-> <<>>,l |-> 15,inq |-> <<>>,out |-> <<165, 90, 165, 90, 165, 90, 165, 90>>]),
    ([wire |-> <<>>,mem |-> <<>>,nsent |-> 0,pending |-> <<>>,outq |-> <<>>,step |-> <<>>,hb |-> <<>>,l |-> 16,inq |-> <<>>,out |-> <<165, 90, 165, 90, 165, 90, 165, 90>>]),
    ([wire |-> <<>>,mem |-> <<>>,nsent |-> 0,pending |-> <<>>,outq |-> <<>>,step |-> <<>>,hb |-> <<>>,l |-> 17,inq |-> <<>>,out |-> <<165, 90, 165, 90, 165, 90, 165, 90>>]),
    ([wire |-> <<>>,mem |-> <<>>,nsent |-> 0,pending |-> <<>>,outq |-> <<>>,step |-> <<>>,hb |-> <<>>,l |-> 18,inq |-> <<>>,out |-> <<165, 90, 165, 90, 165, 90, 165, 90>>]),
    ([wire |-> <<>>,mem |-> <<>>,nsent |-> 0,pending |-> <<>>,outq |-> <<>>,step |-> <<>>,hb |-> <<>>,l |-> 19,inq |-> <<>>,out |-> <<165, 90, 165, 90, 165, 90, 165, 90>>]),
    ([wire |-> <<>>,mem |-> <<>>,nsent |-> 0,pending |-> <<>>,outq |-> <<>>,step |-> <<>>,hb |-> <<>>,l |-> 20,inq |-> <<>>,out |-> <<165, 90, 165, 90, 165, 90, 165, 90>>]),
    ([wire |-> <<>>,mem |-> <<>>,nsent |-> 0,pending |-> <<>>,outq |-> <<>>,step |-> <<>>,hb |-> <<>>,l |-> 21,inq |-> <<>>,out |-> <<165, 90, 165, 90, 165, 90, 165, 90>>]),
    ([wire |-> <<>>,mem |-> <<>>,nsent |-> 0,pending |-> <<>>,outq |-> <<>>,step |-> <<>>,hb |-> <<>>,l |-> 22,inq |-> <<>>,out |-> <<165, 90, 165, 90, 165, 90, 165, 90>>]),
    ([wire |-> <<>>,mem |-> <<>>,nsent |-> 0,pending |-> <<>>,outq |-> <<>>,step |-> <<>>,hb |-> <<>>,l |-> 23,inq |-> <<>>,out |-> <<165, 90, 165, 90, 165, 90, 165, 90>>]),
    ([wire |-> <<>>,mem |-> <<>>,nsent |-> 0,pending |-> <<>>,outq |-> <<>>,step |-> <<>>,hb |-> <<>>,l |-> 24,inq |-> <<>>,out |-> <<165, 90, 165, 90, 165, 90, 165, 90>>]),
    ([wire |-> <<>>,mem |-> <<>>,nsent |-> 0,pending |-> <<>>,outq |-> <<>>,step |-> <<>>,hb |-> <<>>,l |-> 25,inq |-> <<>>,out |-> <<165, 90, 165, 90, 165, 90, 165, 90>>]),
    ([wire |-> <<>>,mem |-> <<>>,nsent |-> 0,pending |-> <<>>,outq |-> <<>>,step |-> <<>>,hb |-> <<>>,l |-> 26,inq |-> <<>>,out |-> <<165, 90, 165, 90, 165, 90, 165, 90>>])
    >>
----


=============================================================================

---- CONFIG CanListenerTrace_TTrace_1791021926 ----
CONSTANTS
    Buf = { 1 }
    Tscf = 0
    Udp = 0
    Fd = 0
    Count = 1

INVARIANT
    _inv

CHECK_DEADLOCK
    \* CHECK_DEADLOCK off because of PROPERTY or INVARIANT above.
    FALSE

INIT
    _init

NEXT
    _next

CONSTANT
    _TETrace <- _trace

ALIAS
    _expression
=============================================================================
\* Generated on Sat Oct 03 10:05:28 UTC 2026