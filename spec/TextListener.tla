---------------------------- MODULE TextListener ----------------------------
(***************************************************************************)
(* The hello-world example listener as a function from a datagram to the   *)
(* text it prints (growth beyond the listed properties; anchors of C18).   *)
(*                                                                         *)
(* A datagram is: optional UDP encapsulation word, TSCF or NTSCF control   *)
(* header (anything that is not TSCF is taken for NTSCF, like the program  *)
(* does), one ACF GPC message.  If the message type is GPC and its length  *)
(* is between the GPC header and 100 bytes and inside the datagram, the    *)
(* listener prints  <text> : GPC Code <msg id>\n  where <text> is the      *)
(* message payload up to (not including) its first NUL octet; otherwise it *)
(* prints nothing.  The machine's state is the text printed so far.        *)
(***************************************************************************)
EXTENDS PduStore, SequencesExt
CONSTANT Udp
VARIABLES printed, lastline
tvars == <<printed, lastline>>

N(m, h, v, f) == Nat16(GetSem(m, h, v, f))
Digits == <<48, 49, 50, 51, 52, 53, 54, 55, 56, 57>>
\* decimal digits of a big-endian byte sequence (the 48-bit message id does not fit TLC's 32-bit integers): long division by 10
RECURSIVE Div10(_, _)
Div10(bs, carry) ==            \* <<quotient bytes, remainder>>
  IF bs = << >> THEN << << >>, carry >>
  ELSE LET x == carry * 256 + Head(bs)  r == Div10(Tail(bs), x % 10) IN << << x \div 10 >> \o r[1], r[2] >>
IsZero(bs) == \A i \in 1..Len(bs) : bs[i] = 0
RECURSIVE DecB(_)
DecB(bs) == IF IsZero(bs) THEN << >> ELSE LET d == Div10(bs, 0) IN DecB(d[1]) \o << Digits[d[2] + 1] >>
Dec(bs) == IF IsZero(bs) THEN << 48 >> ELSE DecB(bs)
Id(m, h) == GetSem(m, h, "Gpc", "gpc_msg_id")
RECURSIVE UpToNul(_)
UpToNul(t) == IF t = << >> \/ Head(t) = 0 THEN << >> ELSE << Head(t) >> \o UpToNul(Tail(t))
Sep == <<32, 58, 32, 71, 80, 67, 32, 67, 111, 100, 101, 32>>              \* " : GPC Code "

Line(p) ==
  LET off == IF Udp = 1 THEN 4 ELSE 0 IN
  IF Len(p) < off + 4 THEN << >>
  ELSE LET hl == IF N(p, off, "CommonHeader", "subtype") = 5 THEN 24 ELSE 12
           pb == off + hl IN
       IF Len(p) < pb + 8 THEN << >>
       ELSE IF N(p, pb, "AcfCommon", "acf_msg_type") # 5 THEN << >>
       ELSE LET ql == N(p, pb, "Gpc", "acf_msg_length") * 4 IN
            IF ql <= 100 /\ ql >= 8 /\ pb + ql <= Len(p)
            THEN UpToNul(SubBytes(p, pb + 8, ql - 8)) \o Sep \o Dec(Id(p, pb)) \o <<10>>
            ELSE << >>

Init == printed = << >> /\ lastline = << >>
Datagram(p) == lastline' = Line(p) /\ printed' = printed \o Line(p)
=============================================================================
