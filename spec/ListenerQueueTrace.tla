------------------------- MODULE ListenerQueueTrace -------------------------
(* Trace specification for StreamListener: the recorded run of the real aaf-listener / cvf-listener
     {"e":"packet","bytes":[..],"ret":r,"seqmsg":0|1}    one datagram handed to new_packet(): its return value and
                                                         whether it printed "Sequence number mismatch"
     {"e":"timeout","out":[..],"ret":r}                  one timer expiration: what timeout() wrote to stdout
     {"e":"reset"}                                       a new listener process
   must be a behaviour of StreamListener; Fifo and Ordered are checked in every state. *)
EXTENDS StreamListener, Json, IOUtils, TLC
Tr == ndJsonDeserialize(IOEnv.TRACE)
VARIABLE l
ASSUME Buf = {1}
TInit == l = 1 /\ Init /\ mem = << >> /\ hb = << >> /\ out = Sentinel /\ step = << >>
TNext ==
  /\ l <= Len(Tr) /\ l' = l + 1 /\ UNCHANGED <<mem, hb, out, step>>
  /\ LET ev == Tr[l] IN
     \/ /\ ev.e = "packet" /\ Packet(ev.bytes)
        /\ last'.ret = ev.ret /\ last'.seqmsg = ev.seqmsg
     \/ /\ ev.e = "timeout" /\ Timeout
        /\ last'.out = ev.out /\ ev.ret = 0
     \/ /\ ev.e = "reset" /\ q' = << >> /\ expected' = 0 /\ accepted' = << >> /\ presented' = << >> /\ last' = [e |-> "init"]
TSpec == TInit /\ [][TNext]_<<svars, l, mem, hb, out, step>>
TraceAccepted == TLCGet("stats").diameter - 1 = Len(Tr)
=============================================================================
