----------------------------- MODULE Wire1722 -----------------------------
(***************************************************************************)
(* Normative wire layout of the header formats Open1722 supports,          *)
(* transcribed from IEEE 1722-2016 (common header 4.4.3, stream header     *)
(* 4.4.4, AAF cl. 7, CVF cl. 8 with the RFC 6184 / 2435 / 5371 payload     *)
(* headers, ACF cl. 9, CRF cl. 10, RVF, UDP encapsulation annex) and from  *)
(* examples/acf-vss/protocol_description/acf-vss.md.  It is NOT derived    *)
(* from the C descriptor tables: it is the oracle they are compared to.    *)
(*                                                                         *)
(* A field is [name, start, w]: `start` is the bit index from the first    *)
(* bit of the header (MSB first), `w` the width in bits.                   *)
(***************************************************************************)
EXTENDS Naturals, Sequences, FiniteSets

F(n, s, w) == [name |-> n, start |-> s, w |-> w]

\* common stream header prefix (4.4.4): subtype .. avtp_timestamp
StreamPrefix ==
  << F("subtype", 0, 8), F("sv", 8, 1), F("version", 9, 3), F("mr", 12, 1),
     F("tv", 15, 1), F("sequence_num", 16, 8), F("tu", 31, 1),
     F("stream_id", 32, 64), F("avtp_timestamp", 96, 32) >>

\* ACF common header (9.4.1): message type and length in quadlets
AcfPrefix == << F("acf_msg_type", 0, 7), F("acf_msg_length", 7, 9) >>

Views == { "CommonHeader", "Udp", "Aaf", "Pcm", "Cvf", "H264", "Mjpeg", "Jpeg2000",
           "Crf", "Rvf", "Tscf", "Ntscf", "AcfCommon", "Can", "CanBrief", "Lin",
           "FlexRay", "Most", "Gpc", "Sensor", "SensorBrief", "Vss", "VssBrief" }

HdrLen ==
  [ CommonHeader |-> 4, Udp |-> 4, Aaf |-> 24, Pcm |-> 24, Cvf |-> 24, H264 |-> 4,
    Mjpeg |-> 8, Jpeg2000 |-> 8, Crf |-> 20, Rvf |-> 32, Tscf |-> 24, Ntscf |-> 12,
    AcfCommon |-> 4, Can |-> 16, CanBrief |-> 8, Lin |-> 12, FlexRay |-> 16,
    Most |-> 20, Gpc |-> 8, Sensor |-> 12, SensorBrief |-> 4, Vss |-> 12, VssBrief |-> 4 ]

\* (a CASE, not a record: TLC then builds only the one tuple that is asked for)
FieldsOf(v) ==
  CASE v = "CommonHeader" ->
         << F("subtype", 0, 8), F("h", 8, 1), F("version", 9, 3) >>
    [] v = "Udp" ->
         << F("encapsulation_seq_no", 0, 32) >>
    [] v = "Aaf" ->
         StreamPrefix \o
                     << F("format", 128, 8), F("aaf_format_specific_data_1", 136, 24),
                        F("stream_data_length", 160, 16), F("afsd", 176, 3), F("sp", 179, 1),
                        F("evt", 180, 4), F("aaf_format_specific_data_2", 184, 8) >>
    [] v = "Pcm" ->
         StreamPrefix \o
                     << F("format", 128, 8), F("nsr", 136, 4), F("channels_per_frame", 142, 10),
                        F("bit_depth", 152, 8), F("stream_data_length", 160, 16),
                        F("sp", 179, 1), F("evt", 180, 4) >>
    [] v = "Cvf" ->
         StreamPrefix \o
                     << F("reserved", 13, 2), F("reserved_2", 24, 7),
                        F("format", 128, 8), F("format_subtype", 136, 8), F("reserved_3", 144, 16),
                        F("stream_data_length", 160, 16), F("reserved_4", 176, 2), F("ptv", 178, 1),
                        F("m", 179, 1), F("evt", 180, 4), F("reserved_5", 184, 8) >>
    [] v = "H264" ->
         << F("timestamp", 0, 32) >>
    [] v = "Mjpeg" ->
         << F("type_specific", 0, 8), F("fragment_offset", 8, 24), F("type", 32, 8),
                        F("q", 40, 8), F("width", 48, 8), F("height", 56, 8) >>
    [] v = "Jpeg2000" ->
         << F("tp", 0, 2), F("mhf", 2, 2), F("mh_id", 4, 3), F("t", 7, 1),
                        F("priority", 8, 8), F("tile_number", 16, 16), F("reserved", 32, 8),
                        F("fragment_offset", 40, 24) >>
    [] v = "Crf" ->
         << F("subtype", 0, 8), F("sv", 8, 1), F("version", 9, 3), F("mr", 12, 1),
                        F("reserved", 13, 1), F("fs", 14, 1), F("tu", 15, 1),
                        F("sequence_num", 16, 8), F("type", 24, 8), F("stream_id", 32, 64),
                        F("pull", 96, 3), F("base_frequency", 99, 29),
                        F("crf_data_length", 128, 16), F("timestamp_interval", 144, 16) >>
    [] v = "Rvf" ->
         StreamPrefix \o
                     << F("reserved", 13, 2), F("reserved_2", 24, 7),
                        F("active_pixels", 128, 16), F("total_lines", 144, 16),
                        F("stream_data_length", 160, 16), F("ap", 176, 1), F("reserved_3", 177, 1),
                        F("f", 178, 1), F("ef", 179, 1), F("evt", 180, 4), F("pd", 184, 1),
                        F("i", 185, 1), F("reserved_4", 186, 6), F("reserved_5", 192, 8),
                        F("pixel_depth", 200, 4), F("pixel_format", 204, 4), F("frame_rate", 208, 8),
                        F("colorspace", 216, 4), F("num_lines", 220, 4), F("reserved_6", 224, 8),
                        F("i_seq_num", 232, 8), F("line_number", 240, 16) >>
    [] v = "Tscf" ->
         StreamPrefix \o << F("stream_data_length", 160, 16) >>
    [] v = "Ntscf" ->
         << F("subtype", 0, 8), F("sv", 8, 1), F("version", 9, 3),
                        F("ntscf_data_length", 13, 11), F("sequence_num", 24, 8),
                        F("stream_id", 32, 64) >>
    [] v = "AcfCommon" ->
         AcfPrefix
    [] v = "Can" ->
         AcfPrefix \o
                     << F("pad", 16, 2), F("mtv", 18, 1), F("rtr", 19, 1), F("eff", 20, 1),
                        F("brs", 21, 1), F("fdf", 22, 1), F("esi", 23, 1), F("can_bus_id", 27, 5),
                        F("message_timestamp", 32, 64), F("can_identifier", 99, 29) >>
    [] v = "CanBrief" ->
         AcfPrefix \o
                     << F("pad", 16, 2), F("mtv", 18, 1), F("rtr", 19, 1), F("eff", 20, 1),
                        F("brs", 21, 1), F("fdf", 22, 1), F("esi", 23, 1), F("can_bus_id", 27, 5),
                        F("can_identifier", 35, 29) >>
    [] v = "Lin" ->
         AcfPrefix \o
                     << F("pad", 16, 2), F("mtv", 18, 1), F("lin_bus_id", 19, 5),
                        F("lin_identifier", 24, 8), F("message_timestamp", 32, 64) >>
    [] v = "FlexRay" ->
         AcfPrefix \o
                     << F("pad", 16, 2), F("mtv", 18, 1), F("fr_bus_id", 19, 5), F("reserved", 24, 2),
                        F("chan", 26, 2), F("str", 28, 1), F("syn", 29, 1), F("pre", 30, 1),
                        F("nfi", 31, 1), F("message_timestamp", 32, 64), F("fr_frame_id", 96, 11),
                        F("reserved_2", 107, 15), F("cycle", 122, 6) >>
    [] v = "Most" ->
         AcfPrefix \o
                     << F("pad", 16, 2), F("mtv", 18, 1), F("most_net_id", 19, 5), F("reserved", 24, 8),
                        F("message_timestamp", 32, 64), F("device_id", 96, 16), F("fblock_id", 112, 8),
                        F("inst_id", 120, 8), F("func_id", 128, 12), F("op_type", 140, 4),
                        F("reserved_2", 144, 16) >>
    [] v = "Gpc" ->
         AcfPrefix \o << F("gpc_msg_id", 16, 48) >>
    [] v = "Sensor" ->
         AcfPrefix \o
                     << F("mtv", 16, 1), F("num_sensor", 17, 7), F("sz", 24, 2),
                        F("sensor_group", 26, 6), F("message_timestamp", 32, 64) >>
    [] v = "SensorBrief" ->
         AcfPrefix \o
                     << F("mtv", 16, 1), F("num_sensor", 17, 7), F("sz", 24, 2),
                        F("sensor_group", 26, 6) >>
    [] v = "Vss" ->
         AcfPrefix \o
                     << F("pad", 16, 2), F("mtv", 18, 1), F("addr_mode", 19, 2), F("vss_op", 21, 3),
                        F("vss_datatype", 24, 8), F("msg_timestamp", 32, 64) >>
    [] v = "VssBrief" ->
         AcfPrefix \o
                     << F("pad", 16, 2), F("mtv", 18, 1), F("addr_mode", 19, 2), F("vss_op", 21, 3),
                        F("vss_datatype", 24, 8) >>

Fields == [v \in Views |-> FieldsOf(v)]

FieldNames(v) == LET fs == FieldsOf(v) IN { fs[i].name : i \in 1..Len(fs) }
FieldOf(v, n) == LET fs == FieldsOf(v) IN fs[CHOOSE i \in 1..Len(fs) : fs[i].name = n]

(***************************************************************************)
(* Canonical initial constants: what an initialiser must leave in an       *)
(* otherwise all-zero header.                                              *)
(***************************************************************************)
C(n, x) == [name |-> n, val |-> x]
InitConst ==
  [ Udp |-> << >>, H264 |-> << >>, Mjpeg |-> << >>, Jpeg2000 |-> << >>,
    Pcm   |-> << C("subtype", 2), C("sv", 1) >>,
    Cvf   |-> << C("subtype", 3), C("sv", 1), C("format", 2) >>,
    Crf   |-> << C("subtype", 4), C("sv", 1) >>,
    Tscf  |-> << C("subtype", 5), C("sv", 1) >>,
    Rvf   |-> << C("subtype", 7), C("sv", 1) >>,
    Ntscf |-> << C("subtype", 130), C("sv", 1) >>,       \* 0x82
    FlexRay     |-> << C("acf_msg_type", 0) >>,
    Can         |-> << C("acf_msg_type", 1) >>,
    CanBrief    |-> << C("acf_msg_type", 2) >>,
    Lin         |-> << C("acf_msg_type", 3) >>,
    Most        |-> << C("acf_msg_type", 4) >>,
    Gpc         |-> << C("acf_msg_type", 5) >>,
    Sensor      |-> << C("acf_msg_type", 8) >>,
    SensorBrief |-> << C("acf_msg_type", 9) >>,
    Vss         |-> << C("acf_msg_type", 66) >>,         \* 0x42
    VssBrief    |-> << C("acf_msg_type", 67) >> ]        \* 0x43
InitViews == DOMAIN InitConst

\* views with a deprecated get/set(/init) API, C12
LegacyViews     == { "CommonHeader", "Pcm", "Crf", "Cvf", "Rvf" }
LegacyInitViews == { "Pcm", "Crf", "Cvf", "Rvf" }

(***************************************************************************)
(* Fields several views share (C17): group = set of views, set of names.   *)
(***************************************************************************)
StreamViews == { "Tscf", "Aaf", "Pcm", "Cvf", "Rvf" }
AcfViews    == { "AcfCommon", "Can", "CanBrief", "Lin", "FlexRay", "Most", "Gpc",
                 "Sensor", "SensorBrief", "Vss", "VssBrief" }
Shared ==
  { [ views |-> { "Aaf", "Pcm", "Cvf", "Crf", "Rvf", "Tscf", "Ntscf" },
      names |-> { "subtype", "sv", "version" } ],
    [ views |-> StreamViews,
      names |-> { "mr", "tv", "sequence_num", "tu", "stream_id", "avtp_timestamp",
                  "stream_data_length" } ],
    [ views |-> { "Aaf", "Pcm" }, names |-> { "format", "sp", "evt" } ],
    [ views |-> AcfViews, names |-> { "acf_msg_type", "acf_msg_length" } ],
    [ views |-> { "Can", "CanBrief" },
      names |-> { "pad", "mtv", "rtr", "eff", "brs", "fdf", "esi", "can_bus_id" } ],
    [ views |-> { "Sensor", "SensorBrief" },
      names |-> { "mtv", "num_sensor", "sz", "sensor_group" } ],
    [ views |-> { "Vss", "VssBrief" },
      names |-> { "pad", "mtv", "addr_mode", "vss_op", "vss_datatype" } ],
    [ views |-> { "Can", "Lin", "FlexRay", "Most" }, names |-> { "pad", "mtv", "message_timestamp" } ] }
\* CommonHeader calls bit 8 `h` where stream formats call it `sv`: same bit.
CommonAlias == [ subtype |-> "subtype", h |-> "sv", version |-> "version" ]


(***************************************************************************)
(* Deprecated API (C12): field-name aliases and packed overlay structures. *)
(***************************************************************************)
LAlias(m, v, f) == [macro |-> m, view |-> v, field |-> f]
LegacyAlias ==
  { LAlias("AVTP_FIELD_SUBTYPE", "CommonHeader", "subtype"), LAlias("AVTP_FIELD_VERSION", "CommonHeader", "version"),
    LAlias("AVTP_AAF_FIELD_SV", "Pcm", "sv"), LAlias("AVTP_AAF_FIELD_MR", "Pcm", "mr"), LAlias("AVTP_AAF_FIELD_TV", "Pcm", "tv"),
    LAlias("AVTP_AAF_FIELD_SEQ_NUM", "Pcm", "sequence_num"), LAlias("AVTP_AAF_FIELD_TU", "Pcm", "tu"),
    LAlias("AVTP_AAF_FIELD_STREAM_ID", "Pcm", "stream_id"), LAlias("AVTP_AAF_FIELD_TIMESTAMP", "Pcm", "avtp_timestamp"),
    LAlias("AVTP_AAF_FIELD_STREAM_DATA_LEN", "Pcm", "stream_data_length"), LAlias("AVTP_AAF_FIELD_FORMAT", "Pcm", "format"),
    LAlias("AVTP_AAF_FIELD_NSR", "Pcm", "nsr"), LAlias("AVTP_AAF_FIELD_CHAN_PER_FRAME", "Pcm", "channels_per_frame"),
    LAlias("AVTP_AAF_FIELD_BIT_DEPTH", "Pcm", "bit_depth"), LAlias("AVTP_AAF_FIELD_SP", "Pcm", "sp"),
    LAlias("AVTP_AAF_FIELD_EVT", "Pcm", "evt"),
    LAlias("AVTP_CRF_FIELD_SEQ_NUM", "Crf", "sequence_num"), LAlias("AVTP_CRF_FIELD_BASE_FREQ", "Crf", "base_frequency"),
    LAlias("AVTP_CRF_FIELD_CRF_DATA_LEN", "Crf", "crf_data_length"),
    LAlias("AVTP_RVF_FIELD_SEQ_NUM", "Rvf", "sequence_num"), LAlias("AVTP_RVF_FIELD_TIMESTAMP", "Rvf", "avtp_timestamp"),
    LAlias("AVTP_RVF_FIELD_STREAM_DATA_LEN", "Rvf", "stream_data_length"),
    LAlias("AVTP_RVF_FIELD_RAW_PIXEL_DEPTH", "Rvf", "pixel_depth"), LAlias("AVTP_RVF_FIELD_RAW_PIXEL_FORMAT", "Rvf", "pixel_format"),
    LAlias("AVTP_RVF_FIELD_RAW_FRAME_RATE", "Rvf", "frame_rate"), LAlias("AVTP_RVF_FIELD_RAW_COLORSPACE", "Rvf", "colorspace"),
    LAlias("AVTP_RVF_FIELD_RAW_NUM_LINES", "Rvf", "num_lines"), LAlias("AVTP_RVF_FIELD_RAW_I_SEQ_NUM", "Rvf", "i_seq_num"),
    LAlias("AVTP_RVF_FIELD_RAW_LINE_NUMBER", "Rvf", "line_number") }
\* alias macros for the one-past-the-end enumerator
LegacyMaxAlias == { [macro |-> "AVTP_FIELD_MAX", view |-> "CommonHeader"], [macro |-> "AVTP_AAF_FIELD_MAX", view |-> "Pcm"] }

\* packed structures of the deprecated API: size and member offsets follow from the layout
ByteOff(v, n) == FieldOf(v, n).start \div 8
LStruct(nm, v, sz, mem) == [name |-> nm, view |-> v, size |-> sz, members |-> mem]
LegacyStructs ==
  { LStruct("struct avtp_common_pdu", "CommonHeader", HdrLen["CommonHeader"],
      [subtype_data |-> 0, pdu_specific |-> HdrLen["CommonHeader"]]),
    LStruct("struct avtp_stream_pdu", "Pcm", HdrLen["Pcm"],
      [subtype_data |-> 0, stream_id |-> ByteOff("Pcm", "stream_id"), avtp_time |-> ByteOff("Pcm", "avtp_timestamp"),
       format_specific |-> ByteOff("Pcm", "format"), packet_info |-> ByteOff("Pcm", "stream_data_length"),
       avtp_payload |-> HdrLen["Pcm"]]),
    LStruct("struct avtp_crf_pdu", "Crf", HdrLen["Crf"],
      [subtype_data |-> 0, stream_id |-> ByteOff("Crf", "stream_id"), packet_info |-> ByteOff("Crf", "pull"),
       crf_data |-> HdrLen["Crf"]]),
    \* the RVF raw header follows the 24-byte stream header: together they are the RVF header
    LStruct("struct avtp_rvf_payload", "Rvf", HdrLen["Rvf"] - HdrLen["Pcm"],
      [raw_header |-> 0, raw_data |-> HdrLen["Rvf"] - HdrLen["Pcm"]]) }
=============================================================================
