------------------------------- MODULE Talkers -------------------------------
(***************************************************************************)
(* The example talkers as stream state machines (growth beyond the listed  *)
(* properties; anchors of C05: the talkers' setter sequences).             *)
(*                                                                         *)
(* A talker owns a packet counter k.  Packet number k must be exactly the  *)
(* reference encoding (Wire1722 layouts) of the header values the program  *)
(* sets for its k-th packet: constants from the initialiser and the field  *)
(* setters, sequence_num = k mod 256, UDP encapsulation sequence = k, the  *)
(* length fields equal to the bytes that follow, payload as prescribed.    *)
(* Fields the program derives from the clock or from rand() are free.      *)
(*   Prog: "aaf" | "crf" | "hello" | "vss"        Tscf, Udp: mode flags    *)
(***************************************************************************)
EXTENDS VssCodec, SequencesExt, Json, IOUtils
CONSTANTS Prog, Tscf, Udp
VARIABLES k, inp            \* packets sent so far; pending input chunk (aaf: audio read from stdin)
ASSUME Buf = {1}

StreamId1 == <<170, 187, 204, 221, 238, 255, 0, 1>>
StreamId2 == <<170, 187, 204, 221, 238, 255, 0, 2>>
N(x) == V64(x)
\* header at offset h of packet p carries exactly the values of record rec (field name -> 64-bit value);
\* every other field of the view except those in `free` is zero
HdrIs(p, h, view, rec, free) ==
  /\ h + HdrLen[view] <= Len(p)
  /\ \A n \in FieldNames(view) \ free :
        GetSem(p, h, view, n) = (IF n \in DOMAIN rec THEN rec[n] ELSE Zero64)
\* and the bits no field covers are zero too: the header equals the reference encoding of its own field values
RECURSIVE EncAll(_, _, _, _)
EncAll(m, view, fs, p) == IF fs = << >> THEN m
                          ELSE EncAll(SetSem(m, 0, view, Head(fs).name, GetSem(p, 0, view, Head(fs).name)), view, Tail(fs), p)
IsRefEncoding(p, h, view) ==
  LET hdr == SubBytes(p, h, HdrLen[view]) IN EncAll(Fill(HdrLen[view], 0), view, FieldsOf(view), hdr) = hdr

CfOff  == IF Udp = 1 THEN 4 ELSE 0
CfView == IF Tscf = 1 THEN "Tscf" ELSE "Ntscf"
CfLen  == HdrLen[CfView]
CfOk(p) ==
  /\ Len(p) >= CfOff + CfLen
  /\ (Udp = 1 => SubBytes(p, 0, 4) = SubBytes(N(k), 4, 4))
  /\ IsRefEncoding(p, CfOff, CfView)
  /\ IF Tscf = 1
       THEN HdrIs(p, CfOff, "Tscf", [subtype |-> N(5), sv |-> N(1), sequence_num |-> N(k % 256), stream_id |-> StreamId1,
                                     stream_data_length |-> N(Len(p) - CfOff - CfLen)], {})
       ELSE HdrIs(p, CfOff, "Ntscf", [subtype |-> N(130), sv |-> N(1), sequence_num |-> N(k % 256), stream_id |-> StreamId1,
                                      ntscf_data_length |-> N(Len(p) - CfOff - CfLen)], {})

HelloText == <<72, 101, 108, 108, 111, 32, 87, 111, 114, 108, 100, 33, 0>>       \* "Hello World!" and its terminator
Expected(p) ==
  CASE Prog = "aaf" ->
         /\ Len(p) = 28 /\ IsRefEncoding(p, 0, "Pcm")
         /\ HdrIs(p, 0, "Pcm", [subtype |-> N(2), sv |-> N(1), tv |-> N(1), sequence_num |-> N(k % 256), stream_id |-> StreamId1,
                                format |-> N(4), nsr |-> N(5), channels_per_frame |-> N(2), bit_depth |-> N(16),
                                stream_data_length |-> N(4)], {"avtp_timestamp"})
         /\ SubBytes(p, 24, 4) = inp
    [] Prog = "crf" ->
         /\ Len(p) = 68 /\ IsRefEncoding(p, 0, "Crf")
         /\ HdrIs(p, 0, "Crf", [subtype |-> N(4), sv |-> N(1), sequence_num |-> N(k % 256), type |-> N(1), stream_id |-> StreamId2,
                                base_frequency |-> N(48000), crf_data_length |-> N(48), timestamp_interval |-> N(160)], {})
    [] Prog = "hello" ->
         LET a == CfOff + CfLen IN
         /\ CfOk(p) /\ Len(p) = a + 24
         /\ IsRefEncoding(p, a, "Gpc")
         /\ HdrIs(p, a, "Gpc", [acf_msg_type |-> N(5), acf_msg_length |-> N(6), gpc_msg_id |-> N(k)], {})
         /\ SubBytes(p, a + 8, 16) = HelloText \o <<0, 0, 0>>
    [] Prog = "vss" ->
         LET a == CfOff + CfLen IN
         /\ CfOk(p) /\ Len(p) = a + 32
         /\ IsRefEncoding(p, a, "Vss")
         /\ HdrIs(p, a, "Vss", [acf_msg_type |-> N(66), acf_msg_length |-> N(8), pad |-> N(1), mtv |-> N(1),
                                addr_mode |-> N(0), vss_op |-> N(0), vss_datatype |-> N(9)], {"msg_timestamp"})
         /\ GetPath(p, a) = <<86, 101, 104, 105, 99, 108, 101, 46, 83, 112, 101, 101, 100>>    \* "Vehicle.Speed"
         /\ MsgEnd(p, a) = a + 31 /\ p[a + 32] = 0                                          \* float value, one zero pad byte

TkInit == k = 0 /\ inp = << >> /\ mem = << >> /\ hb = << >> /\ out = Sentinel /\ step = << >>
Input(b) == inp' = b /\ UNCHANGED k
Send(p)  == Expected(p) /\ k' = k + 1 /\ inp' = << >>

\* ---- trace specification
Tr == ndJsonDeserialize(IOEnv.TRACE)
VARIABLE l
TInit == l = 1 /\ TkInit
TNext == /\ l <= Len(Tr) /\ l' = l + 1 /\ UNCHANGED <<mem, hb, out, step>>
         /\ \/ Tr[l].e = "input" /\ Input(Tr[l].bytes)
            \/ Tr[l].e = "pkt" /\ Send(Tr[l].bytes)
TSpec == TInit /\ [][TNext]_<<k, inp, l, mem, hb, out, step>>
TraceAccepted == TLCGet("stats").diameter - 1 = Len(Tr)
=============================================================================
