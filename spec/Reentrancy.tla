------------------------------ MODULE Reentrancy ------------------------------
(***************************************************************************)
(* C16: library calls are re-entrant.                                      *)
(*                                                                         *)
(* N threads run library calls concurrently.  A call on a field that spans *)
(* several quadlets is NOT atomic: it is a sequence of steps, one load and *)
(* one store per quadlet (GenericImpl), interleaved arbitrarily with the   *)
(* steps of other threads.  Each thread owns one buffer; one more buffer   *)
(* is shared but only read.  The only state a step reads or writes is the  *)
(* buffer it was given and the thread's own locals - unless the library    *)
(* owned writable static storage.  `SharedCells` is that storage: the      *)
(* property holds exactly because it is empty (FactsTrace checks the       *)
(* compiled objects for it); with SharedCells = {"scratch"} - a static     *)
(* scratch variable in the writer, the classic refactoring mistake - TLC   *)
(* finds the interleaving that corrupts a PDU (negative model).            *)
(*                                                                         *)
(* Memory is abstracted to quadlets holding small naturals; a writer       *)
(* stores its thread-specific value v into quadlets 0..K-1 of its buffer,  *)
(* a reader collects quadlets 0..K-1 of the shared buffer.                 *)
(***************************************************************************)
EXTENDS Naturals, Sequences, FiniteSets, TLC
CONSTANTS Threads, K, SharedCells, Calls     \* Calls: number of calls per thread
VARIABLES buf,      \* buf[t][q]: quadlet q of the buffer owned by thread t
          shr,      \* the read-shared buffer
          pc,       \* pc[t]: [call, phase, q]  phase in {"idle","load","store","read","done"}
          tmp,      \* tmp[t]: the thread's local (register / stack)
          res,      \* res[t]: what the reader collected
          scratch   \* library-owned static storage (only used if "scratch" \in SharedCells)
vars == <<buf, shr, pc, tmp, res, scratch>>

Val(t, c) == 10 * t + c                  \* value written by thread t in its call c
SharedInit == [q \in 0..(K-1) |-> 7 + q]

Init ==
  /\ buf = [t \in Threads |-> [q \in 0..(K-1) |-> 0]]
  /\ shr = SharedInit
  /\ pc = [t \in Threads |-> [call |-> 1, phase |-> "load", q |-> 0]]
  /\ tmp = [t \in Threads |-> 0] /\ res = [t \in Threads |-> << >>] /\ scratch = 0

\* odd calls are writes to the own buffer, even calls are reads of the shared buffer
IsWrite(c) == c % 2 = 1
\* writer, per quadlet: load the quadlet (read-modify-write), then store the new value
Load(t) ==
  /\ pc[t].phase = "load" /\ pc[t].call <= Calls /\ IsWrite(pc[t].call)
  /\ IF "scratch" \in SharedCells
       THEN scratch' = Val(t, pc[t].call) /\ tmp' = tmp          \* new value parked in static storage
       ELSE tmp' = [tmp EXCEPT ![t] = Val(t, pc[t].call)] /\ scratch' = scratch
  /\ pc' = [pc EXCEPT ![t].phase = "store"]
  /\ UNCHANGED <<buf, shr, res>>
Store(t) ==
  /\ pc[t].phase = "store"
  /\ buf' = [buf EXCEPT ![t][pc[t].q] = IF "scratch" \in SharedCells THEN scratch ELSE tmp[t]]
  /\ pc' = [pc EXCEPT ![t] = IF pc[t].q + 1 < K THEN [call |-> pc[t].call, phase |-> "load", q |-> pc[t].q + 1]
                                ELSE [call |-> pc[t].call + 1, phase |-> "load", q |-> 0]]
  /\ UNCHANGED <<shr, tmp, res, scratch>>
\* reader: one load per quadlet of the shared buffer; never writes it
Read(t) ==
  /\ pc[t].phase = "load" /\ pc[t].call <= Calls /\ ~IsWrite(pc[t].call)
  /\ res' = [res EXCEPT ![t] = IF pc[t].q = 0 THEN <<shr[0]>> ELSE Append(res[t], shr[pc[t].q])]
  /\ pc' = [pc EXCEPT ![t] = IF pc[t].q + 1 < K THEN [call |-> pc[t].call, phase |-> "load", q |-> pc[t].q + 1]
                                ELSE [call |-> pc[t].call + 1, phase |-> "load", q |-> 0]]
  /\ UNCHANGED <<buf, shr, tmp, scratch>>
Next == \E t \in Threads : Load(t) \/ Store(t) \/ Read(t)
Spec == Init /\ [][Next]_vars

Done(t) == pc[t].call > Calls
LastWrite == IF IsWrite(Calls) THEN Calls ELSE Calls - 1
(***************************************************************************)
(* Sequential equivalence: whatever the interleaving, when a thread has    *)
(* finished, its buffer holds what its own last write stored and its read  *)
(* returned the shared buffer - the results of ANY sequential order.       *)
(***************************************************************************)
SequentialResults ==
  \A t \in Threads : Done(t) =>
     /\ (LastWrite >= 1 => \A q \in 0..(K-1) : buf[t][q] = Val(t, LastWrite))
     /\ (Calls >= 2 => res[t] = [i \in 1..K |-> SharedInit[i - 1]])
\* a completed quadlet of a write in progress never holds another thread's value (no cross-talk at any time)
NoCrossTalk == \A t \in Threads : \A q \in 0..(K-1) : buf[t][q] = 0 \/ \E c \in 1..Calls : buf[t][q] = Val(t, c)
\* readers never write, nobody writes the shared buffer
SharedUntouched == shr = SharedInit
=============================================================================
