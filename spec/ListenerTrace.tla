---------------------------- MODULE ListenerTrace ----------------------------
(***************************************************************************)
(* SafeListener (C18): what a run of a listener's receive path over a      *)
(* sequence of datagrams must look like.  An observation                   *)
(*   {"e":"seq","listener","classes","n","status","done","lastgood",       *)
(*    "last","alone"}                                                      *)
(* is accepted iff                                                         *)
(*   - the process survived: no signal (out-of-bounds access under ASan,   *)
(*     wild pointer, arithmetic fault), no watchdog timeout (unbounded      *)
(*     loop);                                                              *)
(*   - no datagram made the handler return a negative value: the main      *)
(*     loops of the listeners that handle one datagram per call (ACF-CAN,  *)
(*     CVF, AAF, CRF) leave on a negative return, i.e. the listener        *)
(*     terminates and never processes the next datagram ("fatal" = 1);     *)
(*     a non-negative return (datagram dropped) is fine;                   *)
(*   - every datagram of the sequence was handled (done = n);              *)
(*   - if the sequence ends with the well-formed datagram, the listener is  *)
(*     still usable: same return value as when that datagram is delivered  *)
(*     alone, and it produces output if it does so alone (lo / ao: output  *)
(*     present).  For the ACF-CAN listener the output is the forwarded CAN *)
(*     frames and must be identical; for the listeners that print text the *)
(*     exact text is not part of the property (a running counter in the    *)
(*     output is legitimate) - a difference is reported as a note.         *)
(***************************************************************************)
EXTENDS Naturals, Sequences, Json, IOUtils, TLC
Tr == ndJsonDeserialize(IOEnv.TRACE)
VARIABLE l
Safe(ev) ==
  /\ ev.e = "seq"
  /\ ev.status = "ok"
  /\ ev.fatal = 0
  /\ ev.done = ev.n
  /\ (ev.lastgood = 1 => /\ ev.last.ret = ev.alone.ret
                          /\ (ev.ao = 1 => ev.lo = 1)
                          /\ (ev.listener = "can" => ev.last = ev.alone))
TInit == l = 1
TNext == l <= Len(Tr) /\ Safe(Tr[l]) /\ l' = l + 1
TSpec == TInit /\ [][TNext]_l
TraceAccepted == TLCGet("stats").diameter - 1 = Len(Tr)
=============================================================================
