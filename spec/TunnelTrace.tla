----------------------------- MODULE TunnelTrace -----------------------------
(* Trace specification for the CAN tunnel: the recorded run of the real example talker and
   listener ({"e":"read","frame"}, {"e":"send","packet"}, {"e":"deliver","packet","frames"})
   must be a behaviour of CanTunnel; Transparent is checked in every state. *)
EXTENDS CanTunnel, Json, IOUtils, TLC
Tr == ndJsonDeserialize(IOEnv.TRACE)
VARIABLE l
ASSUME Buf = {1}
TInit == l = 1 /\ Init /\ mem = << >> /\ hb = << >> /\ out = Sentinel /\ step = << >>
TNext ==
  /\ l <= Len(Tr) /\ l' = l + 1 /\ UNCHANGED <<mem, hb, out, step>>
  /\ LET ev == Tr[l] IN
     \/ ev.e = "read" /\ Read(ev.frame)
     \/ ev.e = "send" /\ Send(ev.packet)
     \/ ev.e = "deliver" /\ Deliver(ev.packet, ev.frames)
     \/ ev.e = "reset" /\ inq' = << >> /\ pending' = << >> /\ wire' = << >> /\ outq' = << >> /\ nsent' = 0     \* next scenario (a new talker process ...
                        /\ start' = (IF "start" \in DOMAIN ev THEN ev.start ELSE <<0, 0, 0, 0>>)        \* ... which has sent ev.start packets already)
TSpec == TInit /\ [][TNext]_<<tvars, l, mem, hb, out, step>>
Quiescent == (l > Len(Tr) /\ pending = << >> /\ wire = << >>) => outq = inq
TraceAccepted == TLCGet("stats").diameter - 1 = Len(Tr)
=============================================================================
