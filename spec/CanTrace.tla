------------------------------ MODULE CanTrace ------------------------------
(* Trace specification for the CAN builders: every recorded builder call
   {"e":"can","kind","op","id","fd","len","payload","base","pre","post","ret"}
   must be the transition CanBuild prescribes (all bytes of the arena and the
   returned value). *)
EXTENDS CanBuild, Json, IOUtils, Sequences
Tr == ndJsonDeserialize(IOEnv.TRACE)
VARIABLE l
tvars == <<mem, hb, out, step, l>>
ASSUME Buf = {1}
TInit == l = 1 /\ mem = [b \in Buf |-> << >>] /\ hb = [b \in Buf |-> 0] /\ out = Sentinel /\ step = [op |-> "start"]
TNext ==
  /\ l <= Len(Tr) /\ l' = l + 1
  /\ LET ev == Tr[l]
         o == [op |-> ev.op, kind |-> ev.kind, id |-> ev.id, fd |-> ev.fd, len |-> ev.len, payload |-> ev.payload] IN
     /\ ev.e = "can" /\ ev.kind \in {"full", "brief"}
     /\ ev.base + MsgLen(ev.kind, ev.len) <= Len(ev.pre)
     /\ \E r \in { CanApply(ev.pre, ev.base, o) } :
          /\ r.post = ev.post /\ r.ret = ev.ret
          /\ mem' = [mem EXCEPT ![1] = r.post] /\ hb' = [hb EXCEPT ![1] = ev.base]
          /\ step' = o
  /\ UNCHANGED out
TSpec == TInit /\ [][TNext]_tvars
TraceAccepted == TLCGet("stats").diameter - 1 = Len(Tr)
=============================================================================
