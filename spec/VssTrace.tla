------------------------------ MODULE VssTrace ------------------------------
(* Trace specification for the VSS codec: recorded calls of the library must be
   transitions of VssCodec (all bytes of the arena, decoded length / bytes, returned number).
     {"e":"vss","op","arg","n","base","pre","post","len","bytes","ret"}
     {"e":"sa","op":"pack","list","blob"} | {"e":"sa","op":"count","blob","count"}
     {"e":"sa","op":"unpack","blob","req","withdest","res":[{"len","bytes","touched"}]}   *)
EXTENDS VssCodec, Json, IOUtils, Sequences
Tr == ndJsonDeserialize(IOEnv.TRACE)
VARIABLE l
tvars == <<mem, hb, out, step, l>>
ASSUME Buf = {1}
TInit == l = 1 /\ mem = [b \in Buf |-> << >>] /\ hb = [b \in Buf |-> 0] /\ out = Sentinel /\ step = [op |-> "start"]

VssCall(ev) ==
  /\ ev.e = "vss"
  /\ \E r \in { VssApply(ev.pre, ev.base, [op |-> ev.op, arg |-> ev.arg, n |-> ev.n]) } :
       /\ r.post = ev.post /\ r.len = ev.len /\ r.bytes = ev.bytes /\ r.ret = ev.ret
       /\ mem' = [mem EXCEPT ![1] = r.post] /\ hb' = [hb EXCEPT ![1] = ev.base]
  /\ step' = [op |-> ev.op]
SaCall(ev) ==
  /\ ev.e = "sa"
  /\ CASE ev.op = "pack"   -> Pack(ev.list) = ev.blob
       [] ev.op = "count"  -> Count(ev.blob) = ev.count
       [] ev.op = "unpack" ->
            LET want == UnpackResult(ev.blob, ev.req, ev.withdest) IN
            /\ Len(ev.res) = ev.req
            /\ \A i \in 1..ev.req :
                 /\ ev.res[i].touched = want[i].touched
                 /\ (want[i].touched = 1 => (ev.res[i].len = want[i].len /\ ev.res[i].bytes = want[i].bytes))
  /\ step' = [op |-> ev.op] /\ UNCHANGED <<mem, hb>>
TNext == l <= Len(Tr) /\ l' = l + 1 /\ (VssCall(Tr[l]) \/ SaCall(Tr[l])) /\ UNCHANGED out
TSpec == TInit /\ [][TNext]_tvars
TraceAccepted == TLCGet("stats").diameter - 1 = Len(Tr)
=============================================================================
