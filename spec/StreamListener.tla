--------------------------- MODULE StreamListener ---------------------------
(***************************************************************************)
(* The AAF and CVF example listeners as a queue machine (growth beyond the *)
(* listed properties; anchors of C18: the same receive paths).             *)
(*                                                                         *)
(*   network --Packet(p)--> [validate] --> q (presentation queue)          *)
(*                                          --Timeout--> stdout            *)
(*                                                                         *)
(* q         payloads accepted and not yet presented, in arrival order     *)
(* expected  the sequence number the listener expects next (8 bit)         *)
(* accepted  every payload ever accepted, in order (history)               *)
(* presented every payload written to stdout, in order (history)           *)
(*                                                                         *)
(* What a datagram means is defined with the normative layouts (Wire1722): *)
(* the checks are made in the order of the program, because the sequence   *)
(* counter is updated in the middle of them (a packet rejected by a later  *)
(* check still advances it).  The presentation queue is FIFO: the timer    *)
(* presents the oldest payload, each exactly once.                         *)
(***************************************************************************)
EXTENDS PduStore, SequencesExt
CONSTANT Kind                      \* "aaf" | "cvf"
VARIABLES q, expected, accepted, presented, last
svars == <<q, expected, accepted, presented, last>>

StreamIdL == <<170, 187, 204, 221, 238, 255, 0, 1>>
N(m, v, f) == Nat16(GetSem(m, 0, v, f))                  \* small fields as naturals
View == IF Kind = "aaf" THEN "Pcm" ELSE "Cvf"
BufSize == IF Kind = "aaf" THEN 28 ELSE 1428             \* what recv() is given: header(s) + payload room
Seen(p) == IF Len(p) > BufSize THEN SubSeq(p, 1, BufSize) ELSE p      \* a longer datagram is cut by recv()

\* checks made before / after the sequence counter is touched
Before(m) ==
  /\ N(m, View, "subtype") = (IF Kind = "aaf" THEN 2 ELSE 3)
  /\ N(m, View, "version") = 0
  /\ N(m, View, "tv") = 1
  /\ (Kind = "aaf" => N(m, View, "sp") = 0)
  /\ GetSem(m, 0, View, "stream_id") = StreamIdL
After(m) ==
  IF Kind = "aaf"
  THEN /\ N(m, "Pcm", "format") = 4 /\ N(m, "Pcm", "nsr") = 5 /\ N(m, "Pcm", "channels_per_frame") = 2
       /\ N(m, "Pcm", "bit_depth") = 16 /\ N(m, "Pcm", "stream_data_length") = 4
  ELSE /\ N(m, "Cvf", "format") = 2 /\ N(m, "Cvf", "format_subtype") = 1
       /\ N(m, "Cvf", "stream_data_length") >= 4
       /\ N(m, "Cvf", "stream_data_length") - 4 <= Len(m) - 28
PayloadOf(m) == IF Kind = "aaf" THEN SubBytes(m, 24, 4) ELSE SubBytes(m, 28, N(m, "Cvf", "stream_data_length") - 4)

\* the listener's verdict on datagram p in a state with sequence counter e
\*   ret: return value of the receive function; seqmsg: 1 iff it reports a sequence mismatch
Judge(p, e) ==
  LET m == Seen(p) IN
  IF Kind = "aaf" /\ Len(m) # 28 THEN [ret |-> 0, seqmsg |-> 0, exp |-> e, enq |-> << >>]     \* not a PDU of this stream: dropped
                                                                                            \* (a negative return would end the listener)
  ELSE IF Kind = "cvf" /\ Len(m) < 28 THEN [ret |-> 0, seqmsg |-> 0, exp |-> e, enq |-> << >>]
  ELSE IF ~Before(m) THEN [ret |-> 0, seqmsg |-> 0, exp |-> e, enq |-> << >>]
  ELSE LET s == N(m, View, "sequence_num") IN
       [ret |-> 0, seqmsg |-> IF s = e THEN 0 ELSE 1, exp |-> (s + 1) % 256,
        enq |-> IF After(m) THEN << PayloadOf(m) >> ELSE << >>]

Init == q = << >> /\ expected = 0 /\ accepted = << >> /\ presented = << >> /\ last = [e |-> "init"]
Packet(p) ==
  LET j == Judge(p, expected) IN
  /\ q' = q \o j.enq /\ accepted' = accepted \o j.enq /\ expected' = j.exp /\ UNCHANGED presented
  /\ last' = [e |-> "packet", ret |-> j.ret, seqmsg |-> j.seqmsg, queued |-> Len(j.enq)]
Timeout ==
  /\ q # << >>
  /\ presented' = Append(presented, Head(q)) /\ q' = Tail(q) /\ UNCHANGED <<expected, accepted>>
  /\ last' = [e |-> "timeout", out |-> Head(q)]

\* FIFO, exactly once: what was presented followed by what is queued is what was accepted
Fifo == presented \o q = accepted
Ordered == IsPrefix(presented, accepted)
=============================================================================
