------------------------------- MODULE GenVss -------------------------------
(***************************************************************************)
(* Bounded instances of the VSS codec (C07, C08, C09).                     *)
(*   Scn = "encode": header with (addr_mode, datatype) on a background,    *)
(*                   then putpath, then putdata                            *)
(*   Scn = "decode": a reference-encoded message, then one of              *)
(*                   calcpath / getpath / getdata(length only) / getdata   *)
(*   Scn = "pad"   : finalisation for every message length in Lens         *)
(*   Scn = "near"  : putpath / putdata on prior contents that are the same *)
(*                   call's own result with one bit of the path / value /  *)
(*                   length prefix flipped ("already in place" short cuts) *)
(*   Scn = "nearpad": finalisation on an already finalised message with    *)
(*                   stale pad bytes or one bit of the first quadlet off   *)
(***************************************************************************)
EXTENDS VssCodec, Json, FiniteSets
CONSTANTS Scn, Modes, Types, NBg, Lens, Big
VARIABLES n, job
gvars == <<mem, hb, out, step, n, job>>
ASSUME Buf = {1}

PatByte(k, i0) ==                      \* (i reduced first: arenas of the maximal-length cases have 65k bytes, TLC integers are 32 bit)
  LET i == i0 % 1009 IN
  IF k = 0 THEN 0 ELSE IF k = 1 THEN 255
  ELSE (((i * i * 7 + 13 * i * k + 101 * k * k + 29) % 251) + ((i * k) % 5)) % 256
Pat(k, len) == Mat([i \in 1..len |-> PatByte(k, i)])

\* value bytes: c elements of size s, pattern p
ValBytes(s, c, p) ==
  Mat([i \in 1..(s * c) |->
     CASE p = 0 -> 0
       [] p = 1 -> 255
       [] p = 2 -> (((i - 1) % 256) * 37) % 256             \* distinct bytes, first one 0x00
       [] p = 3 -> IF (i - 1) % s = 0 THEN 128 ELSE 0         \* sign bit / -0.0 per element
       [] p = 4 -> IF (i - 1) % s = 0 THEN 127 ELSE 255       \* largest positive
       [] p = 5 -> IF (i - 1) % s = 0 THEN 127 ELSE IF (i - 1) % s = 1 THEN (IF s = 8 THEN 248 ELSE 192)
                   ELSE IF i % s = 0 THEN 1 ELSE 0            \* quiet NaN with payload (float/double)
       [] OTHER -> IF i % s = 0 THEN 1 ELSE 0 ])              \* 1 / smallest subnormal
Counts == IF Big THEN {0, 1, 2, 3, 7, 100} ELSE {0, 1, 2, 3, 7}
\* structured counts: powers of two and their neighbours (block-wise conversion loops, 8-bit counters of elements / pairs / quadlets)
SCounts == {8, 15, 16, 17, 31, 32, 33, 63, 64, 65, 127, 128, 129, 192, 255, 256, 257, 300, 511, 512, 513, 768, 1000, 1023, 1024, 1025}
\* large values are combined with one path and one buffer offset only (volume)
IsLarge(val) == Len(val) > 64
ValuesOf(dt) ==
  IF ~KnownType(dt) THEN { ValBytes(1, 4, 2) }
  ELSE IF IsVar(dt)
    THEN { ValBytes(ElemSize(dt), c, p) : c \in Counts, p \in {1, 2, 5} }
         \cup { ValBytes(ElemSize(dt), c, 2) : c \in SCounts }      \* element counts around block sizes and counter widths, every element width
         \cup (IF Big THEN { ValBytes(ElemSize(dt), 65535 \div ElemSize(dt), 2) } ELSE {})
    ELSE { ValBytes(ElemSize(dt), 1, p) : p \in 0..6 }

PathBytes(len) == Mat([i \in 1..len |-> IF i = 3 THEN 0 ELSE IF i = 8 THEN 46 ELSE 65 + (i % 26)])
PathsOf(mode) ==
  CASE mode = 0 -> { PathBytes(l) : l \in (IF Big THEN {0, 1, 4, 13, 300} ELSE {0, 1, 4, 13}) }
    [] mode = 1 -> { <<0,0,0,0>>, <<0,0,0,1>>, <<222,173,190,239>> }
    [] OTHER    -> { PathBytes(4) }

VOp(op, arg, k) == [op |-> op, arg |-> arg, n |-> k]
HdrWith(a, h, mode, dt) == SetSem(SetSem(a, h, "Vss", "addr_mode", V64(mode)), h, "Vss", "vss_datatype", V64(dt))

\* byte positions (1-based, in the arena) whose least significant bit is flipped to derive near-valid prior contents
NearSpots(lo, len) == { lo + i : i \in { j \in {1, 2, 3, 4, 5, 6, 7, 8, len - 1, len} : j >= 1 /\ j <= len } }
GInit ==
  /\ out = Sentinel /\ n = 0
  /\ CASE Scn = "near" ->
         \E mode \in Modes : \E dt \in Types : \E path \in PathsOf(mode) : \E val \in ValuesOf(dt) : \E k \in 1..NBg : \E nop \in {"putpath", "putdata"} :
            LET h == 0
                total == h + VH + Len(PathWire(mode, path)) + Len(DataWire(dt, val)) + 3
                a == HdrWith(Pat(k + 1, total), h, mode, dt)
                enc == PutData(PutPath(a, h, path), h, val)
                lo == IF nop = "putpath" THEN h + VH ELSE h + VH + Len(PathWire(mode, path))
                ln == IF nop = "putpath" THEN Len(PathWire(mode, path)) ELSE Len(DataWire(dt, val)) IN
            /\ Len(val) <= 64
            /\ \E spot \in NearSpots(lo, ln) :
                 /\ job = [mode |-> mode, dt |-> dt, path |-> path, val |-> val, nearop |-> nop]
                 /\ hb = [b \in Buf |-> h]
                 /\ mem = [b \in Buf |-> FlipBit(enc, 8 * spot - 1)]
       [] Scn = "nearpad" ->
         \E vlen \in Lens : \E k \in 1..NBg : \E init \in {0, 1} :
            LET h == 0
                a0 == Pat(k, h + vlen + VPad(vlen) + 5)
                a == IF init = 1 THEN InitSem(a0, h, "Vss") ELSE a0
                post == PadMsg(a, h, vlen) IN
            \E img \in { FlipBit(post, p) : p \in 0..31 }
                       \cup (IF VPad(vlen) > 0 THEN { [i \in 1..Len(post) |-> IF i > h + vlen /\ i <= h + vlen + VPad(vlen) THEN 238 ELSE post[i]] \o << >> } ELSE {})
                       \* a message finalised at a shorter length inside the same last quadlet, then grown (appended bytes and whatever
                       \* followed them are not zero any more), now finalised again
                       \cup { LET prev == PadMsg(a, h, vlen - d) IN
                              [i \in 1..Len(prev) |-> IF i > h + vlen - d /\ i <= h + vlen + VPad(vlen) THEN 51 ELSE prev[i]] \o << >>
                              : d \in { e \in 1..3 : e + VPad(vlen) <= 3 /\ vlen - e >= 12 } } :
              /\ job = [mode |-> 0, dt |-> 0, path |-> << >>, val |-> << >>]
              /\ hb = [b \in Buf |-> h]
              /\ mem = [b \in Buf |-> img]
       [] Scn \in {"encode", "decode"} ->
         \E mode \in Modes : \E dt \in Types : \E path \in PathsOf(mode) : \E val \in ValuesOf(dt) : \E k \in 1..NBg : \E h \in {0, 3} :
            LET total == h + VH + Len(PathWire(mode, path)) + Len(DataWire(dt, val)) + 3
                a == HdrWith(Pat(k + 1, total), h, mode, dt)
                enc == PutData(PutPath(a, h, path), h, val) IN
            /\ IsLarge(val) => (h = 0 /\ k = 1 /\ path = (IF mode = 0 THEN PathBytes(4) ELSE <<0,0,0,1>>))
            /\ job = [mode |-> mode, dt |-> dt, path |-> path, val |-> val]
            /\ hb = [b \in Buf |-> h]
            /\ mem = [b \in Buf |-> IF Scn = "encode" THEN a ELSE enc]
       [] Scn = "pad" ->
         \E vlen \in Lens : \E k \in 1..NBg : \E h \in {0, 1} :
            /\ job = [mode |-> 0, dt |-> 0, path |-> << >>, val |-> << >>]
            /\ hb = [b \in Buf |-> h]
            /\ mem = [b \in Buf |-> Pat(k, h + vlen + VPad(vlen) + 5)]
  /\ step = VOp("start", << >>, 0) @@ [base |-> hb[1], pre |-> << >>, post |-> << >>, len |-> 0, bytes |-> << >>, ret |-> 0,
                                        mode |-> job.mode, dt |-> job.dt, dataat |-> 0]

DoVss(o) ==
  \E r \in { VssApply(mem[1], hb[1], o) } :
     /\ mem' = [mem EXCEPT ![1] = r.post]
     /\ step' = o @@ [base |-> hb[1], pre |-> mem[1], post |-> r.post, len |-> r.len, bytes |-> r.bytes, ret |-> r.ret,
                      mode |-> AddrMode(mem[1], hb[1]), dt |-> DataType(mem[1], hb[1]),
                      dataat |-> IF AddrMode(mem[1], hb[1]) \in {0, 1} THEN DataAt(mem[1], hb[1]) ELSE 0]   \* where the value starts (for in-place sources)
     /\ UNCHANGED <<hb, out, job>>

GNext ==
  /\ n' = n + 1
  /\ CASE Scn = "encode" ->
            \/ n = 0 /\ DoVss(VOp("putpath", job.path, 0))
            \/ n = 1 /\ job.mode \in {0, 1} /\ DoVss(VOp("putdata", job.val, 0))
       [] Scn = "decode" ->
            /\ n = 0 /\ job.mode \in {0, 1}
            /\ \/ DoVss(VOp("calcpath", << >>, 0))
               \/ DoVss(VOp("getpath", << >>, 1))
               \/ KnownType(job.dt) /\ DoVss(VOp("getdata", << >>, 0))
               \/ KnownType(job.dt) /\ DoVss(VOp("getdata", << >>, 1))
       [] Scn = "near" ->
            /\ n = 0 /\ job.mode \in {0, 1}
            /\ DoVss(VOp(job.nearop, IF job.nearop = "putpath" THEN job.path ELSE job.val, 0))
       [] Scn \in {"pad", "nearpad"} ->
            /\ n = 0 /\ \E vlen \in Lens : (Len(mem[1]) = hb[1] + vlen + VPad(vlen) + 5 /\ DoVss(VOp("pad", << >>, vlen)))
GSpec == GInit /\ [][GNext]_gvars

(***************************************************************************)
(* Theorems                                                                *)
(***************************************************************************)
\* C08: decoding inverts encoding (on the model: for every reference-encoded message)
DecodeInvertsEncode ==
  (Scn = "decode" /\ job.mode \in {0, 1}) =>
     /\ GetPath(mem[1], hb[1]) = job.path
     /\ PathLen(mem[1], hb[1]) = Len(PathWire(job.mode, job.path))
     /\ (KnownType(job.dt) => GetData(mem[1], hb[1]).bytes = job.val)
\* C07: after putpath;putdata decoding the bytes gives back path and value, and
\* nothing outside the two regions changed
EncodeThenDecode ==
  (Scn = "encode" /\ step.op = "putdata" /\ KnownType(job.dt)) =>
     /\ GetPath(mem[1], hb[1]) = job.path /\ GetData(mem[1], hb[1]).bytes = job.val
     /\ MsgEnd(mem[1], hb[1]) = Len(mem[1]) - 3
FrameVss ==
  [][ LET h == hb[1]  m0 == step'.pre  m1 == mem'[1] IN
      /\ Len(m1) = Len(m0)
      /\ step'.op = "putpath" => \A i \in 1..Len(m0) : (i <= h + VH \/ i > h + VH + Len(PathWire(step'.mode, step'.arg))) => m1[i] = m0[i]
      /\ step'.op = "putdata" => \A i \in 1..Len(m0) :
            (i <= DataAt(m0, h) \/ i > DataAt(m0, h) + Len(DataWire(step'.dt, step'.arg))) => m1[i] = m0[i]
      /\ step'.op \in {"calcpath", "getpath", "getdata"} => m1 = m0
      /\ step'.op = "pad" => \A i \in 1..Len(m0) : (i <= h \/ (i > h + 4 /\ i <= h + step'.n) \/ i > h + step'.n + VPad(step'.n)) => m1[i] = m0[i]
    ]_<<mem, step>>
\* C09
PadOK ==
  step.op = "pad" =>
     /\ Nat16(GetSem(mem[1], hb[1], "Vss", "acf_msg_length")) * 4 = step.n + VPad(step.n)
     /\ Nat16(GetSem(mem[1], hb[1], "Vss", "pad")) = VPad(step.n)
     /\ \A i \in 1..VPad(step.n) : mem[1][hb[1] + step.n + i] = 0

Emit ==
  \/ step.op = "start"
  \/ PrintT(ToJson(step))
=============================================================================
