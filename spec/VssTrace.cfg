SPECIFICATION TSpec
CONSTANT Buf = {1}
POSTCONDITION TraceAccepted
CHECK_DEADLOCK FALSE
