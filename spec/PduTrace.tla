------------------------------ MODULE PduTrace ------------------------------
(***************************************************************************)
(* Trace specification: a log of calls executed against the real library   *)
(* (ndjson, one event per line, file named by the environment variable     *)
(* TRACE) is accepted iff it is a behaviour of PduStore - every logged     *)
(* result (all bytes of the buffer, returned value, return code, content   *)
(* of the result object) must be the one the specification computes.       *)
(*                                                                         *)
(* Events:                                                                 *)
(*   {"e":"load","buf":b,"base":h,"mem":[..]}      caller fills a buffer   *)
(*   {"e":"op","buf":b,"base":h,"op":..,"view":..,"field":..,"path":..,    *)
(*    "val":[8],"id":..,"post":[..],"ret":[8],"rc":n,"out":[8]              *)
(*    (, "pre":[..])}     one library call; with "pre" the event also      *)
(*                         (re)loads the buffer first (independent calls)  *)
(***************************************************************************)
EXTENDS PduStore, Json, IOUtils, Sequences
ASSUME Buf = 0..7

Tr == ndJsonDeserialize(IOEnv.TRACE)
VARIABLE l
tvars == <<mem, hb, out, step, l>>

TInit ==
  /\ l = 1
  /\ mem = [b \in Buf |-> << >>] /\ hb = [b \in Buf |-> 0] /\ out = Sentinel
  /\ step = [op |-> "start", view |-> "", field |-> "", path |-> "", val |-> Zero64, id |-> "",
             buf |-> 0, base |-> 0, pre |-> << >>, post |-> << >>, ret |-> NoRet, rc |-> 0, out |-> Sentinel]

Load(ev) ==
  /\ ev.e = "load"
  /\ mem' = [mem EXCEPT ![ev.buf] = ev.mem] /\ hb' = [hb EXCEPT ![ev.buf] = ev.base]
  /\ step' = [op |-> "load", view |-> "", field |-> "", path |-> "", val |-> Zero64, id |-> "",
              buf |-> ev.buf, base |-> ev.base, pre |-> ev.mem, post |-> ev.mem, ret |-> NoRet, rc |-> 0, out |-> out]
  /\ UNCHANGED out

Call(ev) ==
  /\ ev.e = "op"
  /\ ev.view \in Views
  /\ LET m == IF "pre" \in DOMAIN ev THEN ev.pre ELSE mem[ev.buf]
         o == [op |-> ev.op, view |-> ev.view, field |-> ev.field, path |-> ev.path, val |-> ev.val, id |-> ev.id]
     IN  /\ (ev.op \in {"get", "set", "nullget", "nullset", "nullout"} => ev.field \in FieldNames(ev.view))
         /\ DoFrom(ev.buf, m, ev.base, o)
  \* what the implementation did must be what the specification says:
  /\ mem'[ev.buf] = ev.post
  /\ step'.ret = ev.ret /\ step'.rc = ev.rc /\ step'.out = ev.out

TNext ==
  /\ l <= Len(Tr) /\ l' = l + 1
  /\ (Load(Tr[l]) \/ Call(Tr[l]))
TSpec == TInit /\ [][TNext]_tvars

TraceAccepted == TLCGet("stats").diameter - 1 = Len(Tr)
=============================================================================
