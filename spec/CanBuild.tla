------------------------------ MODULE CanBuild ------------------------------
(***************************************************************************)
(* Reference semantics of the ACF-CAN message builders (C06).              *)
(*                                                                         *)
(* A message lives in an arena m at offset h: header (Can: 16 bytes,       *)
(* CanBrief: 8), payload, pad, then whatever follows.                      *)
(*   Build   = copy the payload verbatim after the header; zero-fill up to *)
(*             the next quadlet; acf_msg_length := (H+len+pad)/4 quadlets; *)
(*             pad := pad count; can_identifier := id mod 2^29;            *)
(*             eff := (id > 0x7FF); fdf := variant; nothing else changes.  *)
(*   The copy step and the finalise step compose to Build.                 *)
(***************************************************************************)
EXTENDS PduStore

ViewOf(kind) == IF kind = "full" THEN "Can" ELSE "CanBrief"
PadOf(len)   == (4 - (len % 4)) % 4
MsgLen(kind, len) == HdrLen[ViewOf(kind)] + len + PadOf(len)          \* padded message, bytes

\* id: 64-bit value whose upper 4 bytes are zero (a 32-bit identifier)
Above7FF(id) == id[5] # 0 \/ id[6] # 0 \/ id[7] > 7

CopyPayload(m, h, kind, payload) == Overlay(m, h + HdrLen[ViewOf(kind)], payload)
SetIdFields(m, h, kind, id, fd) ==
  LET v == ViewOf(kind) IN
  SetSem(SetSem(SetSem(m, h, v, "eff", V64(IF Above7FF(id) THEN 1 ELSE 0)), h, v, "can_identifier", id), h, v, "fdf", V64(fd))
Finalize(m, h, kind, len) ==
  LET v == ViewOf(kind)  pad == PadOf(len)
      m1 == Overlay(m, h + HdrLen[v] + len, Fill(pad, 0))
  IN  SetSem(SetSem(m1, h, v, "acf_msg_length", V64(MsgLen(kind, len) \div 4)), h, v, "pad", V64(pad))
Build(m, h, kind, id, fd, payload) ==
  Finalize(SetIdFields(CopyPayload(m, h, kind, payload), h, kind, id, fd), h, kind, Len(payload))

\* payload length read back from a well-formed message
PayloadLength(m, h, kind) ==
  LET v == ViewOf(kind) IN
  Nat16(GetSem(m, h, v, "acf_msg_length")) * 4 - HdrLen[v] - Nat16(GetSem(m, h, v, "pad"))

(***************************************************************************)
(* Operation descriptors: [op, kind, id, fd, len, payload]                 *)
(*   op: "create" | "copy" | "idfields" | "finalize" | "paylen"            *)
(* Result [post, ret]: ret is the brief builder's / length reader's value. *)
(***************************************************************************)
CanApply(m, h, o) ==
  CASE o.op = "create"   -> [post |-> Build(m, h, o.kind, o.id, o.fd, o.payload),
                             ret  |-> IF o.kind = "brief" THEN MsgLen(o.kind, Len(o.payload)) ELSE 0]
    [] o.op = "copy"     -> [post |-> CopyPayload(m, h, o.kind, o.payload), ret |-> 0]
    [] o.op = "idfields" -> [post |-> SetIdFields(m, h, o.kind, o.id, o.fd), ret |-> 0]
    [] o.op = "finalize" -> [post |-> Finalize(m, h, o.kind, o.len),
                             ret  |-> IF o.kind = "brief" THEN MsgLen(o.kind, o.len) ELSE 0]
    [] o.op = "paylen"   -> [post |-> m, ret |-> PayloadLength(m, h, o.kind)]
=============================================================================
