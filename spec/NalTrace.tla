------------------------------ MODULE NalTrace ------------------------------
(* Trace specification for the CVF talker: recorded inputs (chunks read from stdin), end of input and packets
   handed to sendto must be a behaviour of NalSplit. *)
EXTENDS NalSplit, Json, IOUtils, TLC
\* ---- trace specification
Tr == ndJsonDeserialize(IOEnv.TRACE)
VARIABLE l
TInit == l = 1 /\ NInit
TNext == /\ l <= Len(Tr) /\ l' = l + 1 /\ UNCHANGED <<mem, hb, out, step>>
         /\ \/ Tr[l].e = "input" /\ Input(Tr[l].bytes)
            \/ Tr[l].e = "eof" /\ Eof
            \/ Tr[l].e = "pkt" /\ Send(Tr[l].bytes)
            \/ Tr[l].e = "reset" /\ stream' = << >> /\ eof' = FALSE /\ sent' = 0
TSpec == TInit /\ [][TNext]_<<stream, eof, sent, l, mem, hb, out, step>>
\* when the program has finished, every unit of the stream has been sent
AllSent == (l > Len(Tr) /\ eof) => sent = Len(Nals(stream, TRUE))
\* before a reset (next scenario) the same must hold
AllSentAtReset == (l <= Len(Tr) /\ Tr[l].e = "reset" /\ eof) => sent = Len(Nals(stream, TRUE))
TraceAccepted == TLCGet("stats").diameter - 1 = Len(Tr)
=============================================================================
