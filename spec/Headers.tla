------------------------------- MODULE Headers -------------------------------
(***************************************************************************)
(* C20: a translation unit as a state machine over declaration facts.      *)
(*                                                                         *)
(* The public headers of the tree under test are scanned into a sequence   *)
(* of facts (file named by the environment variable FACTS), in file order: *)
(*   once | include n | macro n body | undef n | use n | enumerator n      *)
(*   | typedef n                                                           *)
(*   | function n | tag n | pack_push | pack_pop | pack_set                *)
(* The state of a translation unit is the set of headers already included  *)
(* (all headers use #pragma once), the macro environment, the ordinary     *)
(* identifiers and tags declared so far, the #pragma pack depth, and the   *)
(* conflicts met.  Include(h) processes the facts of h in order, entering  *)
(* nested includes.  A conflict is recorded when                           *)
(*   - a macro is redefined with a different body         (meaning changes) *)
(*   - a macro is defined over an existing declaration  (later uses change) *)
(*   - a declaration's name is currently a macro   (the macro is expanded  *)
(*     inside the declaration: another name is declared, or a clash)       *)
(*   - an ordinary identifier / tag of another header is declared again    *)
(*   - a declaration uses a name that some public header defines as a      *)
(*     macro, at a point where it is not (or no longer: #undef) a macro    *)
(*   - a header leaves the #pragma pack state changed (layout of every     *)
(*     later structure changes)                                            *)
(* TLC explores every order of Depth distinct top-level includes and the   *)
(* constraint prints [order, conflicts] for each; the compiler's verdict   *)
(* on the same orders (static assertions on every public constant, size    *)
(* and offset) is the binding.                                             *)
(***************************************************************************)
EXTENDS Naturals, Sequences, FiniteSets, Json, IOUtils, TLC
CONSTANT Depth
AllFacts == ndJsonDeserialize(IOEnv.FACTS)
Hdrs == { AllFacts[i].h : i \in DOMAIN AllFacts }
FactsOf(h) == SelectSeq(AllFacts, LAMBDA f : f.h = h)

VARIABLES order, st
Empty == [inc |-> {}, env |-> {}, bad |-> {}, pack |-> 0]

Ordinary == {"enumerator", "typedef", "function"}
Entry(f) == [name |-> f.name, kind |-> f.kind, body |-> f.body, owner |-> f.h]
Conf(k, f) == [conflict |-> k, name |-> f.name, header |-> f.h]

Declare(s, f) ==
  LET macroHit == \E e \in s.env : e.name = f.name /\ e.kind = "macro"
      clash    == \E e \in s.env : e.name = f.name /\ e.owner # f.h /\
                     ((f.kind \in Ordinary /\ e.kind \in Ordinary /\ ~(f.kind = "function" /\ e.kind = "function"))
                      \/ (f.kind = "tag" /\ e.kind = "tag"))
  IN  [s EXCEPT !.env = @ \cup {Entry(f)},
                !.bad = @ \cup (IF macroHit THEN {Conf("macro-captures-declaration", f)} ELSE {})
                          \cup (IF clash THEN {Conf("redeclared", f)} ELSE {})]
Define(s, f) ==
  LET differs == \E e \in s.env : e.name = f.name /\ e.kind = "macro" /\ e.body # f.body
      shadows == \E e \in s.env : e.name = f.name /\ e.kind \in Ordinary
  IN  [s EXCEPT !.env = { e \in @ : ~(e.name = f.name /\ e.kind = "macro") } \cup {Entry(f)},
                !.bad = @ \cup (IF differs THEN {Conf("macro-redefined", f)} ELSE {})
                          \cup (IF shadows THEN {Conf("macro-shadows-declaration", f)} ELSE {})]

RECURSIVE Process(_, _)
Process(s, fs) ==
  IF fs = << >> THEN s
  ELSE LET f == Head(fs) IN
       Process(
         CASE f.kind = "include" ->
                IF f.name \in s.inc \/ f.name \notin Hdrs THEN s
                ELSE Process([s EXCEPT !.inc = @ \cup {f.name}], FactsOf(f.name))
           [] f.kind = "macro"     -> Define(s, f)
           [] f.kind = "use"       ->      \* a declaration relies on a macro: it must be one here
                IF \E e \in s.env : e.name = f.name /\ e.kind = "macro" THEN s
                ELSE [s EXCEPT !.bad = @ \cup {Conf("macro-use-undefined", f)}]
           [] f.kind = "undef"     -> [s EXCEPT !.env = { e \in @ : ~(e.name = f.name /\ e.kind = "macro") }]
           [] f.kind \in Ordinary \cup {"tag"} -> Declare(s, f)
           [] f.kind = "pack_push" -> [s EXCEPT !.pack = @ + 1]
           [] f.kind = "pack_pop"  -> [s EXCEPT !.pack = IF @ > 0 THEN @ - 1 ELSE 0]
           [] f.kind = "pack_set"  -> [s EXCEPT !.pack = IF f.name = "" THEN 0 ELSE @ + 100]
           [] OTHER -> s,
         Tail(fs))

Include(s, h) ==
  IF h \in s.inc THEN s
  ELSE LET s2 == Process([s EXCEPT !.inc = @ \cup {h}], FactsOf(h)) IN
       IF s2.pack # s.pack THEN [s2 EXCEPT !.bad = @ \cup {[conflict |-> "pack-leak", name |-> "#pragma pack", header |-> h]}] ELSE s2

Init == order = << >> /\ st = Empty
Next == /\ Len(order) < Depth
        /\ \E h \in Hdrs : (\A i \in 1..Len(order) : order[i] # h) /\ order' = Append(order, h) /\ st' = Include(st, h)
Spec == Init /\ [][Next]_<<order, st>>

\* a header alone never conflicts with itself (sanity of the scan and of the tree)
AloneClean == Len(order) = 1 => st.bad = {}
Emit == Len(order) < Depth \/ PrintT(ToJson([order |-> order, bad |-> st.bad]))
=============================================================================
