---- MODULE Headers_TTrace_1791004003 ----
EXTENDS Sequences, TLCExt, Headers, Toolbox, Naturals, TLC

_expression ==
    LET Headers_TEExpression == INSTANCE Headers_TEExpression
    IN Headers_TEExpression!expression
----

_trace ==
    LET Headers_TETrace == INSTANCE Headers_TETrace
    IN Headers_TETrace!trace
----

_inv ==
    ~(
        TLCGet("level") = Len(_TETrace)
        /\
        st = ([inc |-> {"avtp/CommonHeader.h", "avtp/Defines.h"}, env |-> {[name |-> "AVTP_PACKED", kind |-> "typedef", body |-> "", owner |-> "avtp/CommonHeader.h"], [name |-> "AVTP_COMMON_HEADER_LEN", kind |-> "macro", body |-> "(1 * AVTP_QUADLET_SIZE)", owner |-> "avtp/CommonHeader.h"], [name |-> "Avtp_CommonHeader_t", kind |-> "typedef", body |-> "", owner |-> "avtp/CommonHeader.h"], [name |-> "enum Avtp_CommonHeaderField", kind |-> "tag", body |-> "", owner |-> "avtp/CommonHeader.h"], [name |-> "AVTP_COMMON_HEADER_FIELD_SUBTYPE", kind |-> "enumerator", body |-> "", owner |-> "avtp/CommonHeader.h"], [name |-> "AVTP_COMMON_HEADER_FIELD_H", kind |-> "enumerator", body |-> "", owner |-> "avtp/CommonHeader.h"], [name |-> "AVTP_COMMON_HEADER_FIELD_VERSION", kind |-> "enumerator", body |-> "", owner |-> "avtp/CommonHeader.h"], [name |-> "AVTP_COMMON_HEADER_FIELD_MAX", kind |-> "enumerator", body |-> "", owner |-> "avtp/CommonHeader.h"], [name |-> "Avtp_CommonHeaderField_t", kind |-> "typedef", body |-> "", owner |-> "avtp/CommonHeader.h"], [name |-> "AVTP_SUBTYPE_61883_IIDC", kind |-> "enumerator", body |-> "", owner |-> "avtp/CommonHeader.h"], [name |-> "AVTP_SUBTYPE_MMA_STREAM", kind |-> "enumerator", body |-> "", owner |-> "avtp/CommonHeader.h"], [name |-> "AVTP_SUBTYPE_AAF", kind |-> "enumerator", body |-> "", owner |-> "avtp/CommonHeader.h"], [name |-> "AVTP_SUBTYPE_CVF", kind |-> "enumerator", body |-> "", owner |-> "avtp/CommonHeader.h"], [name |-> "AVTP_SUBTYPE_CRF", kind |-> "enumerator", body |-> "", owner |-> "avtp/CommonHeader.h"], [name |-> "AVTP_SUBTYPE_TSCF", kind |-> "enumerator", body |-> "", owner |-> "avtp/CommonHeader.h"], [name |-> "AVTP_SUBTYPE_SVF", kind |-> "enumerator", body |-> "", owner |-> "avtp/CommonHeader.h"], [name |-> "AVTP_SUBTYPE_RVF", kind |-> "enumerator", body |-> "", owner |-> "avtp/CommonHeader.h"], [name |-> "AVTP_SUBTYPE_AEF_CONTINUOUS", kind |-> "enumerator", body |-> "", owner |-> "avtp/CommonHeader.h"], [name |-> "AVTP_SUBTYPE_VSF_STREAM", kind |-> "enumerator", body |-> "", owner |-> "avtp/CommonHeader.h"], [name |-> "AVTP_SUBTYPE_EF_STREAM", kind |-> "enumerator", body |-> "", owner |-> "avtp/CommonHeader.h"], [name |-> "AVTP_SUBTYPE_NTSCF", kind |-> "enumerator", body |-> "", owner |-> "avtp/CommonHeader.h"], [name |-> "AVTP_SUBTYPE_ESCF", kind |-> "enumerator", body |-> "", owner |-> "avtp/CommonHeader.h"], [name |-> "AVTP_SUBTYPE_EECF", kind |-> "enumerator", body |-> "", owner |-> "avtp/CommonHeader.h"], [name |-> "AVTP_SUBTYPE_AEF_DISCRETE", kind |-> "enumerator", body |-> "", owner |-> "avtp/CommonHeader.h"], [name |-> "AVTP_SUBTYPE_ADP", kind |-> "enumerator", body |-> "", owner |-> "avtp/CommonHeader.h"], [name |-> "AVTP_SUBTYPE_AECP", kind |-> "enumerator", body |-> "", owner |-> "avtp/CommonHeader.h"], [name |-> "AVTP_SUBTYPE_ACMP", kind |-> "enumerator", body |-> "", owner |-> "avtp/CommonHeader.h"], [name |-> "AVTP_SUBTYPE_MAAP", kind |-> "enumerator", body |-> "", owner |-> "avtp/CommonHeader.h"], [name |-> "AVTP_SUBTYPE_EF_CONTROL", kind |-> "enumerator", body |-> "", owner |-> "avtp/CommonHeader.h"], [name |-> "Avtp_AvtpSubtype_t", kind |-> "typedef", body |-> "", owner |-> "avtp/CommonHeader.h"], [name |-> "Avtp_CommonHeader_GetField", kind |-> "function", body |-> "", owner |-> "avtp/CommonHeader.h"], [name |-> "Avtp_CommonHeader_GetSubtype", kind |-> "function", body |-> "", owner |-> "avtp/CommonHeader.h"], [name |-> "Avtp_CommonHeader_GetH", kind |-> "function", body |-> "", owner |-> "avtp/CommonHeader.h"], [name |-> "Avtp_CommonHeader_GetVersion", kind |-> "function", body |-> "", owner |-> "avtp/CommonHeader.h"], [name |-> "Avtp_CommonHeader_SetField", kind |-> "function", body |-> "", owner |-> "avtp/CommonHeader.h"], [name |-> "Avtp_CommonHeader_SetSubtype", kind |-> "function", body |-> "", owner |-> "avtp/CommonHeader.h"], [name |-> "Avtp_CommonHeader_SetH", kind |-> "function", body |-> "", owner |-> "avtp/CommonHeader.h"], [name |-> "Avtp_CommonHeader_SetVersion", kind |-> "function", body |-> "", owner |-> "avtp/CommonHeader.h"], [name |-> "struct avtp_common_pdu", kind |-> "tag", body |-> "", owner |-> "avtp/CommonHeader.h"], [name |-> "struct avtp_stream_pdu", kind |-> "tag", body |-> "", owner |-> "avtp/CommonHeader.h"], [name |-> "AVTP_FIELD_SUBTYPE", kind |-> "macro", body |-> "(AVTP_COMMON_HEADER_FIELD_SUBTYPE)", owner |-> "avtp/CommonHeader.h"], [name |-> "AVTP_FIELD_VERSION", kind |-> "macro", body |-> "(AVTP_COMMON_HEADER_FIELD_VERSION)", owner |-> "avtp/CommonHeader.h"], [name |-> "AVTP_FIELD_MAX", kind |-> "macro", body |-> "(AVTP_COMMON_HEADER_FIELD_MAX)", owner |-> "avtp/CommonHeader.h"], [name |-> "avtp_pdu_get", kind |-> "function", body |-> "", owner |-> "avtp/CommonHeader.h"], [name |-> "avtp_pdu_set", kind |-> "function", body |-> "", owner |-> "avtp/CommonHeader.h"], [name |-> "AVTP_FIELD_MAX_BITS", kind |-> "macro", body |-> "64", owner |-> "avtp/Defines.h"], [name |-> "AVTP_QUADLET_SIZE", kind |-> "macro", body |-> "4", owner |-> "avtp/Defines.h"], [name |-> "struct Avtp_FieldDescriptor", kind |-> "tag", body |-> "", owner |-> "avtp/Defines.h"], [name |-> "Avtp_FieldDescriptor_t", kind |-> "typedef", body |-> "", owner |-> "avtp/Defines.h"]}, bad |-> {[name |-> "AVTP_PACKED", conflict |-> "macro-captures-declaration", header |-> "avtp/CommonHeader.h"]}, pack |-> 0])
        /\
        order = (<<"avtp/CommonHeader.h">>)
    )
----

_init ==
    /\ st = _TETrace[1].st
    /\ order = _TETrace[1].order
----

_next ==
    /\ \E i,j \in DOMAIN _TETrace:
        /\ \/ /\ j = i + 1
              /\ i = TLCGet("level")
        /\ st  = _TETrace[i].st
        /\ st' = _TETrace[j].st
        /\ order  = _TETrace[i].order
        /\ order' = _TETrace[j].order

\* Uncomment the ASSUME below to write the states of the error trace
\* to the given file in Json format. Note that you can pass any tuple
\* to `JsonSerialize`. For example, a sub-sequence of _TETrace.
    \* ASSUME
    \*     LET J == INSTANCE Json
    \*         IN J!JsonSerialize("Headers_TTrace_1791004003.json", _TETrace)

=============================================================================

 Note that you can extract this module `Headers_TEExpression`
  to a dedicated file to reuse `expression` (the module in the 
  dedicated `Headers_TEExpression.tla` file takes precedence 
  over the module `Headers_TEExpression` below).

---- MODULE Headers_TEExpression ----
EXTENDS Sequences, TLCExt, Headers, Toolbox, Naturals, TLC

expression == 
    [
        \* To hide variables of the `Headers` spec from the error trace,
        \* remove the variables below.  The trace will be written in the order
        \* of the fields of this record.
        st |-> st
        ,order |-> order
        
        \* Put additional constant-, state-, and action-level expressions here:
        \* ,_stateNumber |-> _TEPosition
        \* ,_stUnchanged |-> st = st'
        
        \* Format the `st` variable as Json value.
        \* ,_stJson |->
        \*     LET J == INSTANCE Json
        \*     IN J!ToJson(st)
        
        \* Lastly, you may build expressions over arbitrary sets of states by
        \* leveraging the _TETrace operator.  For example, this is how to
        \* count the number of times a spec variable changed up to the current
        \* state in the trace.
        \* ,_stModCount |->
        \*     LET F[s \in DOMAIN _TETrace] ==
        \*         IF s = 1 THEN 0
        \*         ELSE IF _TETrace[s].st # _TETrace[s-1].st
        \*             THEN 1 + F[s-1] ELSE F[s-1]
        \*     IN F[_TEPosition - 1]
    ]

=============================================================================



Parsing and semantic processing can take forever if the trace below is long.
 In this case, it is advised to uncomment the module below to deserialize the
 trace from a generated binary file.

\*
\*---- MODULE Headers_TETrace ----
\*EXTENDS IOUtils, Headers, TLC
\*
\*trace == IODeserialize("Headers_TTrace_1791004003.bin", TRUE)
\*
\*=============================================================================
\*

---- MODULE Headers_TETrace ----
EXTENDS Headers, TLC

trace == 
    <<
    ([st |-> [inc |-> {}, env |-> {}, bad |-> {}, pack |-> 0],order |-> <<>>]),
    ([st |-> [inc |-> {"avtp/CommonHeader.h", "avtp/Defines.h"}, env |-> {[name |-> "AVTP_PACKED", kind |-> "typedef", body |-> "", owner |-> "avtp/CommonHeader.h"], [name |-> "AVTP_COMMON_HEADER_LEN", kind |-> "macro", body |-> "(1 * AVTP_QUADLET_SIZE)", owner |-> "avtp/CommonHeader.h"], [name |-> "Avtp_CommonHeader_t", kind |-> "typedef", body |-> "", owner |-> "avtp/CommonHeader.h"], [name |-> "enum Avtp_CommonHeaderField", kind |-> "tag", body |-> "", owner |-> "avtp/CommonHeader.h"], [name |-> "AVTP_COMMON_HEADER_FIELD_SUBTYPE", kind |-> "enumerator", body |-> "", owner |-> "avtp/CommonHeader.h"], [name |-> "AVTP_COMMON_HEADER_FIELD_H", kind |-> "enumerator", body |-> "", owner |-> "avtp/CommonHeader.h"], [name |-> "AVTP_COMMON_HEADER_FIELD_VERSION", kind |-> "enumerator", body |-> "", owner |-> "avtp/CommonHeader.h"], [name |-> "AVTP_COMMON_HEADER_FIELD_MAX", kind |-> "enumerator", body |-> "", owner |-> "avtp/CommonHeader.h"], [name |-> "Avtp_CommonHeaderField_t", kind |-> "typedef", body |-> "", owner |-> "avtp/CommonHeader.h"], [name |-> "AVTP_SUBTYPE_61883_IIDC", kind |-> "enumerator", body |-> "", owner |-> "avtp/CommonHeader.h"], [name |-> "AVTP_SUBTYPE_MMA_STREAM", kind |-> "enumerator", body |-> "", owner |-> "avtp/CommonHeader.h"], [name |-> "AVTP_SUBTYPE_AAF", kind |-> "enumerator", body |-> "", owner |-> "avtp/CommonHeader.h"], [name |-> "AVTP_SUBTYPE_CVF", kind |-> "enumerator", body |-> "", owner |-> "avtp/CommonHeader.h"], [name |-> "AVTP_SUBTYPE_CRF", kind |-> "enumerator", body |-> "", owner |-> "avtp/CommonHeader.h"], [name |-> "AVTP_SUBTYPE_TSCF", kind |-> "enumerator", body |-> "", owner |-> "avtp/CommonHeader.h"], [name |-> "AVTP_SUBTYPE_SVF", kind |-> "enumerator", body |-> "", owner |-> "avtp/CommonHeader.h"], [name |-> "AVTP_SUBTYPE_RVF", kind |-> "enumerator", body |-> "", owner |-> "avtp/CommonHeader.h"], [name |-> "AVTP_SUBTYPE_AEF_CONTINUOUS", kind |-> "enumerator", body |-> "", owner |-> "avtp/CommonHeader.h"], [name |-> "AVTP_SUBTYPE_VSF_STREAM", kind |-> "enumerator", body |-> "", owner |-> "avtp/CommonHeader.h"], [name |-> "AVTP_SUBTYPE_EF_STREAM", kind |-> "enumerator", body |-> "", owner |-> "avtp/CommonHeader.h"], [name |-> "AVTP_SUBTYPE_NTSCF", kind |-> "enumerator", body |-> "", owner |-> "avtp/CommonHeader.h"], [name |-> "AVTP_SUBTYPE_ESCF", kind |-> "enumerator", body |-> "", owner |-> "avtp/CommonHeader.h"], [name |-> "AVTP_SUBTYPE_EECF", kind |-> "enumerator", body |-> "", owner |-> "avtp/CommonHeader.h"], [name |-> "AVTP_SUBTYPE_AEF_DISCRETE", kind |-> "enumerator", body |-> "", owner |-> "avtp/CommonHeader.h"], [name |-> "AVTP_SUBTYPE_ADP", kind |-> "enumerator", body |-> "", owner |-> "avtp/CommonHeader.h"], [name |-> "AVTP_SUBTYPE_AECP", kind |-> "enumerator", body |-> "", owner |-> "avtp/CommonHeader.h"], [name |-> "AVTP_SUBTYPE_ACMP", kind |-> "enumerator", body |-> "", owner |-> "avtp/CommonHeader.h"], [name |-> "AVTP_SUBTYPE_MAAP", kind |-> "enumerator", body |-> "", owner |-> "avtp/CommonHeader.h"], [name |-> "AVTP_SUBTYPE_EF_CONTROL", kind |-> "enumerator", body |-> "", owner |-> "avtp/CommonHeader.h"], [name |-> "Avtp_AvtpSubtype_t", kind |-> "typedef", body |-> "", owner |-> "avtp/CommonHeader.h"], [name |-> "Avtp_CommonHeader_GetField", kind |-> "function", body |-> "", owner |-> "avtp/CommonHeader.h"], [name |-> "Avtp_CommonHeader_GetSubtype", kind |-> "function", body |-> "", owner |-> "avtp/CommonHeader.h"], [name |-> "Avtp_CommonHeader_GetH", kind |-> "function", body |-> "", owner |-> "avtp/CommonHeader.h"], [name |-> "Avtp_CommonHeader_GetVersion", kind |-> "function", body |-> "", owner |-> "avtp/CommonHeader.h"], [name |-> "Avtp_CommonHeader_SetField", kind |-> "function", body |-> "", owner |-> "avtp/CommonHeader.h"], [name |-> "Avtp_CommonHeader_SetSubtype", kind |-> "function", body |-> "", owner |-> "avtp/CommonHeader.h"], [name |-> "Avtp_CommonHeader_SetH", kind |-> "function", body |-> "", owner |-> "avtp/CommonHeader.h"], [name |-> "Avtp_CommonHeader_SetVersion", kind |-> "function", body |-> "", owner |-> "avtp/CommonHeader.h"], [name |-> "struct avtp_common_pdu", kind |-> "tag", body |-> "", owner |-> "avtp/CommonHeader.h"], [name |-> "struct avtp_stream_pdu", kind |-> "tag", body |-> "", owner |-> "avtp/CommonHeader.h"], [name |-> "AVTP_FIELD_SUBTYPE", kind |-> "macro", body |-> "(AVTP_COMMON_HEADER_FIELD_SUBTYPE)", owner |-> "avtp/CommonHeader.h"], [name |-> "AVTP_FIELD_VERSION", kind |-> "macro", body |-> "(AVTP_COMMON_HEADER_FIELD_VERSION)", owner |-> "avtp/CommonHeader.h"], [name |-> "AVTP_FIELD_MAX", kind |-> "macro", body |-> "(AVTP_COMMON_HEADER_FIELD_MAX)", owner |-> "avtp/CommonHeader.h"], [name |-> "avtp_pdu_get", kind |-> "function", body |-> "", owner |-> "avtp/CommonHeader.h"], [name |-> "avtp_pdu_set", kind |-> "function", body |-> "", owner |-> "avtp/CommonHeader.h"], [name |-> "AVTP_FIELD_MAX_BITS", kind |-> "macro", body |-> "64", owner |-> "avtp/Defines.h"], [name |-> "AVTP_QUADLET_SIZE", kind |-> "macro", body |-> "4", owner |-> "avtp/Defines.h"], [name |-> "struct Avtp_FieldDescriptor", kind |-> "tag", body |-> "", owner |-> "avtp/Defines.h"], [name |-> "Avtp_FieldDescriptor_t", kind |-> "typedef", body |-> "", owner |-> "avtp/Defines.h"]}, bad |-> {[name |-> "AVTP_PACKED", conflict |-> "macro-captures-declaration", header |-> "avtp/CommonHeader.h"]}, pack |-> 0],order |-> <<"avtp/CommonHeader.h">>])
    >>
----


=============================================================================

---- CONFIG Headers_TTrace_1791004003 ----
CONSTANTS
    Depth = 3

INVARIANT
    _inv

CHECK_DEADLOCK
    \* CHECK_DEADLOCK off because of PROPERTY or INVARIANT above.
    FALSE

INIT
    _init

NEXT
    _next

CONSTANT
    _TETrace <- _trace

ALIAS
    _expression
=============================================================================
\* Generated on Sat Oct 03 05:06:45 UTC 2026