---------------------------- MODULE AcfContainer ----------------------------
(***************************************************************************)
(* Growth beyond the listed properties (DESIGN 10, item 6): assembly of a  *)
(* control-format PDU (TSCF or NTSCF) that carries SEVERAL ACF messages of  *)
(* MIXED kinds (full and brief ACF-CAN, GPC), the way the README tutorial and   *)
(* the example talkers do it with the library:                             *)
(*                                                                         *)
(*   InitCtrl : initialise the control header at the start of the buffer   *)
(*   Append   : initialise an ACF header at the running offset, build the  *)
(*              message there, advance the offset by the message length    *)
(*              READ BACK from the message (acf_msg_length quadlets)       *)
(*   Close    : write the number of bytes occupied by the messages into    *)
(*              the control header's data-length field                     *)
(*   Reopen   : take a closed container up again (append, close again)     *)
(*                                                                         *)
(* Design theorems (TLC, every container over the bounded alphabet):       *)
(*   ParseInvertsAssembly : walking the closed container by the generic    *)
(*        ACF prefix (type, length) yields exactly the appended messages   *)
(*   LengthExact          : the announced length = sum of padded messages  *)
(*   Beyond               : no byte beyond the running offset changes      *)
(*   HeaderKept           : the control header is canonical but for length *)
(* Every closed container is emitted and rebuilt with the real library by  *)
(* the executor command CT; final bytes, offset and the walk must agree.   *)
(***************************************************************************)
EXTENDS CanBuild, Json, FiniteSets
CONSTANTS Ctrls, MaxMsgs, Lens, NBg, MaxCloses
VARIABLES n, ctrl, msgs, used, phase, arena0, closedAt      \* closedAt: message counts at which the container was closed so far
avars == <<mem, hb, out, step, n, ctrl, msgs, used, phase, arena0, closedAt>>
ASSUME Buf = {1}

LenField(c) == IF c = "Tscf" THEN "stream_data_length" ELSE "ntscf_data_length"
MaxLen == CHOOSE x \in Lens : \A y \in Lens : y <= x
Cap == 24 + MaxMsgs * (16 + MaxLen + 3) + 3

PatByte(k, i) ==
  IF k = 0 THEN 0 ELSE IF k = 1 THEN 255
  ELSE (((i * i * 7 + 13 * i * k + 101 * k * k + 29) % 251) + ((i * k) % 5)) % 256
Pat(k, len) == Mat([i \in 1..len |-> PatByte(k, i)])
Payload(p, len) == Mat([i \in 1..len |-> IF p = 0 THEN (17 * i + 3) % 256 ELSE 255 - ((29 * i) % 256)])
Ids == { V64(291), <<0,0,0,0,31,255,255,255>> }        \* 0x123 (standard), 0x1FFFFFFF (extended)

AInit ==
  /\ ctrl \in Ctrls
  /\ \E k \in 1..NBg : arena0 = Pat(k + 1, Cap)
  /\ mem = [b \in Buf |-> arena0]
  /\ hb = [b \in Buf |-> 0] /\ out = Sentinel /\ n = 0 /\ msgs = << >> /\ used = 0 /\ phase = "raw"
  /\ step = [op |-> "start"] /\ closedAt = << >>

InitCtrl ==
  /\ phase = "raw"
  /\ mem' = [mem EXCEPT ![1] = InitSem(@, 0, ctrl)]
  /\ used' = HdrLen[ctrl] /\ phase' = "open" /\ n' = n + 1
  /\ step' = [op |-> "cinit"]
  /\ UNCHANGED <<hb, out, ctrl, msgs, arena0, closedAt>>

AppendMsg(kind, id, fd, len, p) ==
  /\ phase = "open" /\ Len(msgs) < MaxMsgs
  /\ LET v  == ViewOf(kind)
         m1 == InitSem(mem[1], used, v)
         m2 == Build(m1, used, kind, id, fd, Payload(p, len))
     IN  /\ mem' = [mem EXCEPT ![1] = m2]
         /\ used' = used + Nat16(GetSem(m2, used, v, "acf_msg_length")) * 4     \* as the talkers do: read the length back
  /\ msgs' = Append(msgs, [kind |-> kind, id |-> id, fd |-> fd, payload |-> Payload(p, len), rawlen |-> len])
  /\ n' = n + 1 /\ step' = [op |-> "append"]
  /\ UNCHANGED <<hb, out, ctrl, phase, arena0, closedAt>>

\* a GPC message as the hello-world talker assembles it: header initialised, message id and length set through the
\* library, payload and zero padding copied by the application (GPC has no pad field: the padded payload IS the payload)
GpcIds == { V64(66), <<0, 0, 255, 238, 221, 204, 187, 170>> }            \* 48-bit message identifiers
AppendGpc(id, len, p) ==
  /\ phase = "open" /\ Len(msgs) < MaxMsgs
  /\ LET padded == Payload(p, len) \o Fill(PadOf(len), 0)
         m1 == InitSem(mem[1], used, "Gpc")
         m2 == SetSem(m1, used, "Gpc", "gpc_msg_id", id)
         m3 == SetSem(m2, used, "Gpc", "acf_msg_length", V64((HdrLen["Gpc"] + Len(padded)) \div 4))
         m4 == Overlay(m3, used + HdrLen["Gpc"], padded)
     IN  /\ mem' = [mem EXCEPT ![1] = m4]
         /\ used' = used + Nat16(GetSem(m4, used, "Gpc", "acf_msg_length")) * 4
         /\ msgs' = Append(msgs, [kind |-> "gpc", id |-> id, fd |-> 0, payload |-> padded, rawlen |-> len])
  /\ n' = n + 1 /\ step' = [op |-> "append"]
  /\ UNCHANGED <<hb, out, ctrl, phase, arena0, closedAt>>

Close ==
  /\ phase = "open"
  /\ mem' = [mem EXCEPT ![1] = SetSem(@, 0, ctrl, LenField(ctrl), V64(used - HdrLen[ctrl]))]
  /\ phase' = "closed" /\ n' = n + 1
  /\ closedAt' = Append(closedAt, Len(msgs))
  /\ step' = [op |-> "container", ctrl |-> ctrl, msgs |-> msgs, pre |-> arena0, post |-> mem'[1], used |-> used, closes |-> closedAt']
  /\ UNCHANGED <<hb, out, ctrl, msgs, used, arena0>>

\* a closed container is taken up again (one more message fits into the datagram): further messages are appended behind the
\* ones already there and the data length is written a second time over its earlier non-zero value
Reopen ==
  /\ phase = "closed" /\ Len(closedAt) < MaxCloses /\ Len(msgs) < MaxMsgs
  /\ phase' = "open" /\ n' = n + 1 /\ step' = [op |-> "reopen"]
  /\ UNCHANGED <<mem, hb, out, ctrl, msgs, used, arena0, closedAt>>

ANext ==
  \/ InitCtrl
  \/ \E kind \in {"full", "brief"} : \E id \in Ids : \E fd \in {0, 1} : \E len \in Lens : AppendMsg(kind, id, fd, len, (len + fd) % 2)
  \/ \E id \in GpcIds : \E len \in Lens : AppendGpc(id, len, len % 2)
  \/ Close
  \/ Reopen
ASpec == AInit /\ [][ANext]_avars

(***************************************************************************)
(* The receiving side: walk by the generic ACF prefix                      *)
(***************************************************************************)
RECURSIVE WalkC(_, _, _)
WalkC(m, h, limit) ==
  IF h >= limit THEN << >>
  ELSE LET t  == Nat16(GetSem(m, h, "AcfCommon", "acf_msg_type"))
           ql == Nat16(GetSem(m, h, "AcfCommon", "acf_msg_length"))
       IN  IF ql = 0 \/ t \notin {1, 2, 5} \/ h + ql * 4 > limit THEN << [kind |-> "bad"] >>
           ELSE IF t = 5 THEN
                << [kind |-> "gpc", id |-> GetSem(m, h, "Gpc", "gpc_msg_id"), fd |-> 0, eff |-> 0,
                    payload |-> SubBytes(m, h + HdrLen["Gpc"], ql * 4 - HdrLen["Gpc"])] >> \o WalkC(m, h + ql * 4, limit)
           ELSE LET kind == IF t = 1 THEN "full" ELSE "brief"
                    v    == ViewOf(kind)
                    plen == ql * 4 - HdrLen[v] - Nat16(GetSem(m, h, v, "pad"))
                IN  << [kind |-> kind, id |-> GetSem(m, h, v, "can_identifier"), fd |-> Nat16(GetSem(m, h, v, "fdf")),
                        eff |-> Nat16(GetSem(m, h, v, "eff")), payload |-> SubBytes(m, h + HdrLen[v], plen)] >>
                    \o WalkC(m, h + ql * 4, limit)

Announced == Nat16(GetSem(mem[1], 0, ctrl, LenField(ctrl)))
Expected == Mat([i \in 1..Len(msgs) |-> [kind |-> msgs[i].kind, id |-> msgs[i].id, fd |-> msgs[i].fd,
                                         eff |-> IF msgs[i].kind # "gpc" /\ Above7FF(msgs[i].id) THEN 1 ELSE 0, payload |-> msgs[i].payload]])
RECURSIVE SumLen(_)
MsgLenX(kind, len) == IF kind = "gpc" THEN HdrLen["Gpc"] + len ELSE MsgLen(kind, len)
SumLen(s) == IF s = << >> THEN 0 ELSE MsgLenX(Head(s).kind, Len(Head(s).payload)) + SumLen(Tail(s))

ParseInvertsAssembly == phase = "closed" => WalkC(mem[1], HdrLen[ctrl], HdrLen[ctrl] + Announced) = Expected
LengthExact == phase = "closed" => (Announced = SumLen(msgs) /\ used = HdrLen[ctrl] + SumLen(msgs))
Beyond == phase # "raw" => \A i \in (used + 1)..Cap : mem[1][i] = arena0[i]
HeaderKept == phase = "closed" => SubBytes(SetSem(mem[1], 0, ctrl, LenField(ctrl), Zero64), 0, HdrLen[ctrl]) = CanonHdr(ctrl)

Emit ==
  \/ step.op # "container"
  \/ PrintT(ToJson(step))
=============================================================================
