---- MODULE PduTrace_TTrace_1790986839 ----
EXTENDS Sequences, TLCExt, Toolbox, Naturals, TLC, PduTrace

_expression ==
    LET PduTrace_TEExpression == INSTANCE PduTrace_TEExpression
    IN PduTrace_TEExpression!expression
----

_trace ==
    LET PduTrace_TETrace == INSTANCE PduTrace_TETrace
    IN PduTrace_TETrace!trace
----

_inv ==
    ~(
        TLCGet("level") = Len(_TETrace)
        /\
        mem = ((0 :> <<0, 0, 48, 71, 245, 177, 0, 0, 159>> @@ 1 :> <<>> @@ 2 :> <<>> @@ 3 :> <<>> @@ 4 :> <<>> @@ 5 :> <<>> @@ 6 :> <<>> @@ 7 :> <<>>))
        /\
        step = ([out |-> <<165, 90, 165, 90, 165, 90, 165, 90>>, op |-> "start", view |-> "", field |-> "", path |-> "", val |-> <<0, 0, 0, 0, 0, 0, 0, 0>>, id |-> "", buf |-> 0, base |-> 0, pre |-> <<>>, post |-> <<>>, ret |-> <<0, 0, 0, 0, 0, 0, 0, 0>>, rc |-> 0])
        /\
        hb = ((0 :> 0 @@ 1 :> 0 @@ 2 :> 0 @@ 3 :> 0 @@ 4 :> 0 @@ 5 :> 0 @@ 6 :> 0 @@ 7 :> 0))
        /\
        l = (2)
        /\
        out = (<<165, 90, 165, 90, 165, 90, 165, 90>>)
    )
----

_init ==
    /\ l = _TETrace[1].l
    /\ out = _TETrace[1].out
    /\ step = _TETrace[1].step
    /\ hb = _TETrace[1].hb
    /\ mem = _TETrace[1].mem
----

_next ==
    /\ \E i,j \in DOMAIN _TETrace:
        /\ \/ /\ j = i + 1
              /\ i = TLCGet("level")
        /\ l  = _TETrace[i].l
        /\ l' = _TETrace[j].l
        /\ out  = _TETrace[i].out
        /\ out' = _TETrace[j].out
        /\ step  = _TETrace[i].step
        /\ step' = _TETrace[j].step
        /\ hb  = _TETrace[i].hb
        /\ hb' = _TETrace[j].hb
        /\ mem  = _TETrace[i].mem
        /\ mem' = _TETrace[j].mem

\* Uncomment the ASSUME below to write the states of the error trace
\* to the given file in Json format. Note that you can pass any tuple
\* to `JsonSerialize`. For example, a sub-sequence of _TETrace.
    \* ASSUME
    \*     LET J == INSTANCE Json
    \*         IN J!JsonSerialize("PduTrace_TTrace_1790986839.json", _TETrace)

=============================================================================

 Note that you can extract this module `PduTrace_TEExpression`
  to a dedicated file to reuse `expression` (the module in the 
  dedicated `PduTrace_TEExpression.tla` file takes precedence 
  over the module `PduTrace_TEExpression` below).

---- MODULE PduTrace_TEExpression ----
EXTENDS Sequences, TLCExt, Toolbox, Naturals, TLC, PduTrace

expression == 
    [
        \* To hide variables of the `PduTrace` spec from the error trace,
        \* remove the variables below.  The trace will be written in the order
        \* of the fields of this record.
        l |-> l
        ,out |-> out
        ,step |-> step
        ,hb |-> hb
        ,mem |-> mem
        
        \* Put additional constant-, state-, and action-level expressions here:
        \* ,_stateNumber |-> _TEPosition
        \* ,_lUnchanged |-> l = l'
        
        \* Format the `l` variable as Json value.
        \* ,_lJson |->
        \*     LET J == INSTANCE Json
        \*     IN J!ToJson(l)
        
        \* Lastly, you may build expressions over arbitrary sets of states by
        \* leveraging the _TETrace operator.  For example, this is how to
        \* count the number of times a spec variable changed up to the current
        \* state in the trace.
        \* ,_lModCount |->
        \*     LET F[s \in DOMAIN _TETrace] ==
        \*         IF s = 1 THEN 0
        \*         ELSE IF _TETrace[s].l # _TETrace[s-1].l
        \*             THEN 1 + F[s-1] ELSE F[s-1]
        \*     IN F[_TEPosition - 1]
    ]

=============================================================================



Parsing and semantic processing can take forever if the trace below is long.
 In this case, it is advised to uncomment the module below to deserialize the
 trace from a generated binary file.

\*
\*---- MODULE PduTrace_TETrace ----
\*EXTENDS IOUtils, TLC, PduTrace
\*
\*trace == IODeserialize("PduTrace_TTrace_1790986839.bin", TRUE)
\*
\*=============================================================================
\*

---- MODULE PduTrace_TETrace ----
EXTENDS TLC, PduTrace

trace == 
    <<
    ([mem |-> (0 :> <<>> @@ 1 :> <<>> @@ 2 :> <<>> @@ 3 :> <<>> @@ 4 :> <<>> @@ 5 :> <<>> @@ 6 :> <<>> @@ 7 :> <<>>),step |-> [out |-> <<165, 90, 165, 90, 165, 90, 165, 90>>, op |-> "start", view |-> "", field |-> "", path |-> "", val |-> <<0, 0, 0, 0, 0, 0, 0, 0>>, id |-> "", buf |-> 0, base |-> 0, pre |-> <<>>, post |-> <<>>, ret |-> <<0, 0, 0, 0, 0, 0, 0, 0>>, rc |-> 0],hb |-> (0 :> 0 @@ 1 :> 0 @@ 2 :> 0 @@ 3 :> 0 @@ 4 :> 0 @@ 5 :> 0 @@ 6 :> 0 @@ 7 :> 0),l |-> 1,out |-> <<165, 90, 165, 90, 165, 90, 165, 90>>]),
    ([mem |-> (0 :> <<0, 0, 48, 71, 245, 177, 0, 0, 159>> @@ 1 :> <<>> @@ 2 :> <<>> @@ 3 :> <<>> @@ 4 :> <<>> @@ 5 :> <<>> @@ 6 :> <<>> @@ 7 :> <<>>),step |-> [out |-> <<165, 90, 165, 90, 165, 90, 165, 90>>, op |-> "start", view |-> "", field |-> "", path |-> "", val |-> <<0, 0, 0, 0, 0, 0, 0, 0>>, id |-> "", buf |-> 0, base |-> 0, pre |-> <<>>, post |-> <<>>, ret |-> <<0, 0, 0, 0, 0, 0, 0, 0>>, rc |-> 0],hb |-> (0 :> 0 @@ 1 :> 0 @@ 2 :> 0 @@ 3 :> 0 @@ 4 :> 0 @@ 5 :> 0 @@ 6 :> 0 @@ 7 :> 0),l |-> 2,out |-> <<165, 90, 165, 90, 165, 90, 165, 90>>])
    >>
----


=============================================================================

---- CONFIG PduTrace_TTrace_1790986839 ----
CONSTANTS
    Buf = { 0 , 1 , 2 , 3 , 4 , 5 , 6 , 7 }

INVARIANT
    _inv

CHECK_DEADLOCK
    \* CHECK_DEADLOCK off because of PROPERTY or INVARIANT above.
    FALSE

INIT
    _init

NEXT
    _next

CONSTANT
    _TETrace <- _trace

ALIAS
    _expression
=============================================================================
\* Generated on Sat Oct 03 00:20:40 UTC 2026