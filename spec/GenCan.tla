------------------------------- MODULE GenCan -------------------------------
(***************************************************************************)
(* Bounded instances of the CAN builders: every payload length, a set of   *)
(* identifiers around every boundary, both variants, both message kinds,   *)
(* several backgrounds and header pre-states.  Behaviours:                 *)
(*   "create" : Build in one call, then read the payload length back       *)
(*   "split"  : copy ; id fields ; finalize  (must equal Build)            *)
(*   "long"   : finalize alone for every length the 9-bit field expresses  *)
(*   "inplace": the payload source lies INSIDE the PDU buffer (a message of *)
(*              the other kind is rebuilt in place: brief -> full reads    *)
(*              its payload at header offset 8, full -> brief at 16); for  *)
(*              up to 8 bytes source and destination do not overlap, but   *)
(*              the header stores of the builder land on the source        *)
(*   "near"   : Build on prior contents that are Build's own result with   *)
(*              one header bit flipped / stale pad bytes / one payload bit *)
(*              flipped ("message already in place" short cuts)            *)
(***************************************************************************)
EXTENDS CanBuild, Json, FiniteSets
CONSTANTS Scn, Lens, Kinds, NBg
VARIABLES n, acc      \* acc: what Build would have produced (for the composition theorem)
cvars == <<mem, hb, out, step, n, acc>>
ASSUME Buf = {1}

PatByte(k, i) ==
  IF k = 0 THEN 0 ELSE IF k = 1 THEN 255
  ELSE (((i * i * 7 + 13 * i * k + 101 * k * k + 29) % 251) + ((i * k) % 5)) % 256
Pat(k, len) == Mat([i \in 1..len |-> PatByte(k, i)])
Payload(p, len) == Mat([i \in 1..len |-> IF p = 0 THEN (17 * i + 3) % 256 ELSE 255 - ((29 * i) % 256)])

Ids == { V64(0), V64(1), V64(2047), V64(2048), <<0,0,0,0,31,255,255,255>>, <<0,0,0,0,32,0,0,0>>,
         <<0,0,0,0,128,0,1,35>>, <<0,0,0,0,255,255,255,255>>, <<0,0,0,0,224,0,7,255>> }

\* arena: 2 leading bytes, header, room for payload + pad, 3 trailing bytes (exactly)
ArenaLen(kind, len) == 2 + MsgLen(kind, len) + 3
CanOp(op, kind, id, fd, len, payload) == [op |-> op, kind |-> kind, id |-> id, fd |-> fd, len |-> len, payload |-> payload]

NearIds == { V64(291), <<0,0,0,0,31,255,255,255>>, <<0,0,0,0,128,0,1,35>> }
NearImages(kind, len, id, fd, payload, k) ==
  LET h == 2  H == HdrLen[ViewOf(kind)]
      post == Build(Pat(k, ArenaLen(kind, len)), h, kind, id, fd, payload) IN
     { FlipBit(post, 8*h + p) : p \in 0..(8*H - 1) }
  \cup (IF PadOf(len) > 0 THEN { [i \in 1..Len(post) |-> IF i > h + H + len /\ i <= h + H + len + PadOf(len) THEN 238 ELSE post[i]] \o << >> } ELSE {})
  \cup (IF len > 0 THEN { FlipBit(post, 8*(h + H) + 7), FlipBit(post, 8*(h + H + len) - 8) } ELSE {})
CInitNear ==
  \E kind \in Kinds : \E len \in Lens : \E k \in 1..NBg : \E id \in NearIds : \E fd \in {0, 1} :
   \E img \in NearImages(kind, len, id, fd, Payload(0, len), k + 1) :
     /\ hb = [b \in Buf |-> 2] /\ out = Sentinel /\ n = 0 /\ acc = << >>
     /\ mem = [b \in Buf |-> img]
     /\ step = CanOp("start", kind, id, fd, len, Payload(0, len)) @@ [base |-> 2, pre |-> << >>, post |-> << >>, ret |-> 0, srcoff |-> 9999]

CInitPlain ==
  \E kind \in Kinds : \E len \in Lens : \E k \in 1..NBg : \E pre \in {0, 1} :
     /\ hb = [b \in Buf |-> 2] /\ out = Sentinel /\ n = 0 /\ acc = << >>
     /\ mem = [b \in Buf |->
                 LET a == Pat(k, ArenaLen(kind, len)) IN
                 IF pre = 0 THEN InitSem(a, 2, ViewOf(kind)) ELSE a]    \* fresh Init, or every field non-zero
     /\ step = CanOp("start", kind, Zero64, 0, len, << >>) @@ [base |-> 2, pre |-> << >>, post |-> << >>, ret |-> 0, srcoff |-> 9999]

DoCanAt(o, srcoffNext) ==
  \E r \in { CanApply(mem[1], hb[1], o) } :
     /\ mem' = [mem EXCEPT ![1] = r.post]
     /\ step' = o @@ [base |-> hb[1], pre |-> mem[1], post |-> r.post, ret |-> r.ret, srcoff |-> srcoffNext]
     /\ UNCHANGED <<hb, out>>

DoCan(o) == DoCanAt(o, 9999)        \* (9999: the payload is a separate object)
Other(kind) == IF kind = "full" THEN "brief" ELSE "full"
CInitInplace ==
  \E kind \in Kinds : \E len \in { l \in Lens : l <= 8 } : \E k \in 1..NBg : \E id \in NearIds : \E fd \in {0, 1} :
     /\ hb = [b \in Buf |-> 2] /\ out = Sentinel /\ n = 0 /\ acc = << >>
     /\ mem = [b \in Buf |-> Build(Pat(k + 1, ArenaLen("full", len)), 2, Other(kind), V64(77), fd, Payload(1, len))]
     /\ step = CanOp("start", kind, id, fd, len, << >>) @@ [base |-> 2, pre |-> << >>, post |-> << >>, ret |-> 0, srcoff |-> 9999]
CInit == IF Scn = "near" THEN CInitNear ELSE IF Scn = "inplace" THEN CInitInplace ELSE CInitPlain
CNext ==
  /\ n' = n + 1
  /\ LET kind == step.kind  len == step.len IN
     CASE Scn = "create" ->
            \/ /\ n = 0 /\ \E id \in Ids : \E fd \in {0, 1} : \E p \in {0, 1} :
                    DoCan(CanOp("create", kind, id, fd, len, Payload(p, len)))
               /\ acc' = acc
            \/ /\ n = 1 /\ kind = "full" /\ len <= 64 /\ DoCan(CanOp("paylen", kind, Zero64, 0, len, << >>)) /\ acc' = acc
       [] Scn = "split" ->
            \/ /\ n = 0 /\ \E p \in {0, 1} : DoCan(CanOp("copy", kind, Zero64, 0, len, Payload(p, len)))
               /\ acc' = << >>
            \/ /\ n = 1
               /\ \E id \in Ids : \E fd \in {0, 1} :
                    (DoCan(CanOp("idfields", kind, id, fd, len, << >>))
                     /\ acc' = Build(step.pre, hb[1], kind, id, fd, step.payload))
            \/ /\ n = 2 /\ DoCan(CanOp("finalize", kind, Zero64, 0, len, << >>)) /\ acc' = acc
       [] Scn = "inplace" ->
            /\ n = 0 /\ acc' = acc
            /\ LET so == hb[1] + HdrLen[ViewOf(Other(kind))] IN
               DoCanAt(CanOp("create", kind, step.id, step.fd, len, SubBytes(mem[1], so, len)), so)
       [] Scn = "near" ->
            /\ n = 0 /\ DoCan(CanOp("create", kind, step.id, step.fd, len, step.payload)) /\ acc' = acc
       [] Scn = "long" ->
            /\ n = 0 /\ DoCan(CanOp("finalize", kind, Zero64, 0, len, << >>)) /\ acc' = acc
CSpec == CInit /\ [][CNext]_cvars

(***************************************************************************)
(* Theorems checked on the model                                           *)
(***************************************************************************)
\* the message is well formed: length field, pad field, zero pad bytes, payload verbatim
WellFormed ==
  step.op \in {"create", "finalize"} =>
     LET v == ViewOf(step.kind)  h == hb[1]  m == mem[1]  len == step.len  H == HdrLen[v] IN
       /\ Nat16(GetSem(m, h, v, "acf_msg_length")) * 4 = H + len + PadOf(len)
       /\ Nat16(GetSem(m, h, v, "pad")) = PadOf(len)
       /\ \A i \in 1..PadOf(len) : m[h + H + len + i] = 0
       /\ (step.op = "create" => SubBytes(m, h + H, len) = step.payload)
\* nothing beyond the padded message and nothing before the header changes; other header fields keep their value
FrameCan ==
  [][ LET v == ViewOf(step'.kind)  h == hb[1]  m0 == step'.pre  m1 == mem'[1] IN
        /\ \A i \in 1..Len(m0) : (i <= h \/ i > h + MsgLen(step'.kind, step'.len)) => m1[i] = m0[i]
        /\ step'.op \in {"create", "finalize", "idfields"} =>
             \A f \in FieldNames(v) \ {"acf_msg_length", "pad", "can_identifier", "eff", "fdf"} :
                GetSem(m1, h, v, f) = GetSem(m0, h, v, f) ]_<<mem, step>>
\* copy ; id fields ; finalize = Build
Composition == (Scn = "split" /\ step.op = "finalize") => mem[1] = acc
\* the payload length reads back
ReadBackLen == step.op = "paylen" => step.ret = step.len

Emit ==
  \/ step.op = "start"
  \/ PrintT(ToJson(step))
=============================================================================
