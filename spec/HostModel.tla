------------------------------ MODULE HostModel ------------------------------
(***************************************************************************)
(* Every library function of C01-C10 re-expressed over the implementation- *)
(* shaped primitives, parameterised by (host, branch): header fields go    *)
(* through the quadlet walk of GenericImpl, the VSS codec converts each    *)
(* 16/32/64-bit unit with the helper of the selected set and stores it as  *)
(* a host object, byte copies are host independent.                        *)
(*   X...(host, host, ..) must equal the reference semantics (theorem      *)
(*   HostIndependence, checked by TLC in GenX) - that is C14 on the model. *)
(*   X...("LE", "BE", ..) predicts the crossed build that can be executed  *)
(*   in this sandbox and binds the model to the code.                      *)
(***************************************************************************)
EXTENDS GenericImpl, VssCodec, CanBuild
(* Two implementation styles satisfy C14 and the model enumerates both (a crossed build can only be predicted under a model of    *)
(* HOW the code reaches multi-byte wire values):                                                                                  *)
(*   AccStyle   "walk"    header fields through the quadlet walk and the 32-bit helpers of the selected set (the tree today)       *)
(*              "bits"    header fields assembled from single bytes: no helper involved, the same on every host                   *)
(*   CodecStyle "helpers" VSS units converted with the helper of the selected set and stored as host objects (the tree today)     *)
(*              "bytes"   VSS units stored / loaded byte by byte in wire order                                                    *)
CONSTANTS AccStyle, CodecStyle

Desc(v, n) == LET f == FieldOf(v, n) IN D(f.start \div 32, f.start % 32, f.w)
XGet(host, br, m, h, v, n)    == IF AccStyle = "bits" THEN GetBits(m, h, Desc(v, n)) ELSE GetImpl(host, br, m, h, Desc(v, n))
XSet(host, br, m, h, v, n, x) == IF AccStyle = "bits" THEN SetBits(m, h, Desc(v, n), x) ELSE SetImpl(host, br, m, h, Desc(v, n), x)

RECURSIVE XPutConsts(_, _, _, _, _, _, _)
XPutConsts(host, br, m, h, v, cs, i) ==
  IF i > Len(cs) THEN m ELSE XPutConsts(host, br, XSet(host, br, m, h, v, cs[i].name, V64(cs[i].val)), h, v, cs, i + 1)
\* initialiser: clear the header (host independent), then store the constants through the writer
XInit(host, br, m, h, v) == XPutConsts(host, br, Overlay(m, h, Fill(HdrLen[v], 0)), h, v, InitConst[v], 1)

\* ---- CAN builders
XBuild(host, br, m, h, kind, id, fd, payload) ==
  LET v == ViewOf(kind)  len == Len(payload)  pad == PadOf(len)
      m1 == Overlay(m, h + HdrLen[v], payload)
      m2 == XSet(host, br, m1, h, v, "eff", V64(IF Above7FF(id) THEN 1 ELSE 0))
      m3 == XSet(host, br, m2, h, v, "can_identifier", id)
      m4 == XSet(host, br, m3, h, v, "fdf", V64(fd))
      m5 == Overlay(m4, h + HdrLen[v] + len, Fill(pad, 0))
      m6 == XSet(host, br, m5, h, v, "acf_msg_length", V64(MsgLen(kind, len) \div 4))
  IN  XSet(host, br, m6, h, v, "pad", V64(pad))

\* ---- VSS codec: a k-byte unit written / read as a host object after conversion
Unit(host, br, v) == IF CodecStyle = "bytes" THEN v ELSE Store(host, Helper(br, "CpuToBe", v))          \* memory image of a unit holding logical value v
UnUnit(host, br, img) == IF CodecStyle = "bytes" THEN img ELSE Helper(br, "BeToCpu", Load(host, img))
RECURSIVE Units(_, _, _, _)
Units(host, br, bytes, s) ==                                          \* every s-byte element converted separately
  IF Len(bytes) < s \/ s = 1 THEN bytes
  ELSE Unit(host, br, SubBytes(bytes, 0, s)) \o Units(host, br, SubBytes(bytes, s, Len(bytes) - s), s)
XAddrMode(host, br, m, h) == Nat16(XGet(host, br, m, h, "Vss", "addr_mode"))
XDataType(host, br, m, h) == Nat16(XGet(host, br, m, h, "Vss", "vss_datatype"))
XRd16(host, br, m, at) == LET u == UnUnit(host, br, SubBytes(m, at, 2)) IN u[1] * 256 + u[2]
XPathWire(host, br, mode, path) ==
  CASE mode = 0 -> Unit(host, br, BE16(Len(path))) \o path
    [] mode = 1 -> Unit(host, br, path)
    [] OTHER -> << >>
XPutPath(host, br, m, h, path) == Overlay(m, h + VH, XPathWire(host, br, XAddrMode(host, br, m, h), path))
XPathLen(host, br, m, h) ==
  CASE XAddrMode(host, br, m, h) = 1 -> 4
    [] XAddrMode(host, br, m, h) = 0 -> XRd16(host, br, m, h + VH) + 2
    [] OTHER -> 0
XDataWire(host, br, dt, bytes) ==
  IF ~KnownType(dt) THEN << >>
  ELSE (IF IsVar(dt) THEN Unit(host, br, BE16(Len(bytes))) ELSE << >>) \o Units(host, br, bytes, ElemSize(dt))
XPutData(host, br, m, h, bytes) ==
  Overlay(m, h + VH + XPathLen(host, br, m, h), XDataWire(host, br, XDataType(host, br, m, h), bytes))
XGetData(host, br, m, h) ==
  LET dt == XDataType(host, br, m, h)  at == h + VH + XPathLen(host, br, m, h) IN
  IF ~KnownType(dt) THEN << >>
  ELSE IF IsVar(dt) THEN Units(host, br, SubBytes(m, at + 2, XRd16(host, br, m, at)), ElemSize(dt))
  ELSE Units(host, br, SubBytes(m, at, ElemSize(dt)), ElemSize(dt))
XGetPath(host, br, m, h) ==
  CASE XAddrMode(host, br, m, h) = 1 -> UnUnit(host, br, SubBytes(m, h + VH, 4))
    [] XAddrMode(host, br, m, h) = 0 -> SubBytes(m, h + VH + 2, XRd16(host, br, m, h + VH))
    [] OTHER -> << >>
\* string arrays: every 16-bit length prefix is a converted unit, the octets are copied
RECURSIVE XPack(_, _, _)
XPack(host, br, list) == IF list = << >> THEN << >> ELSE Unit(host, br, BE16(Len(Head(list)))) \o Head(list) \o XPack(host, br, Tail(list))
XPad(host, br, m, h, vlen) ==
  LET m1 == Overlay(m, h + vlen, Fill(VPad(vlen), 0)) IN
  XSet(host, br, XSet(host, br, m1, h, "Vss", "acf_msg_length", V64((vlen + VPad(vlen)) \div 4)), h, "Vss", "pad", V64(VPad(vlen)))
=============================================================================
