------------------------------ MODULE NalSplit ------------------------------
(***************************************************************************)
(* The CVF example talker as a state machine (growth beyond the listed     *)
(* properties): an H.264 byte stream arrives in chunks of arbitrary size;  *)
(* the talker cuts it at start codes (00 00 01) and sends one CVF/H.264    *)
(* packet per NAL unit - start code included, bytes before the first start *)
(* code dropped, the last unit sent at end of input.                       *)
(*                                                                         *)
(*   stream   all bytes read so far          eof   end of input reached    *)
(*   sent     number of packets sent                                       *)
(* Packet number k must carry the k-th NAL unit of the stream, whatever    *)
(* the chunking was, with the header the program sets: reference encoding  *)
(* of subtype CVF, sv, tv, M = 1, format RFC / H.264, sequence_num = k mod *)
(* 256, stream id, stream_data_length = NAL length + 4, H.264 timestamp 0  *)
(* (avtp_timestamp is derived from the clock: free).  A unit can only be   *)
(* sent once the next start code (or the end of input) has been read.      *)
(***************************************************************************)
EXTENDS PduStore, SequencesExt
VARIABLES stream, eof, sent
ASSUME Buf = {1}

IsSC(s, i) == i + 2 <= Len(s) /\ s[i] = 0 /\ s[i + 1] = 0 /\ s[i + 2] = 1          \* start code at 1-based position i
SCs(s) == { i \in 1..Len(s) : IsSC(s, i) }
\* start codes as the talker sees them: scanning restarts one byte after the previous start
RECURSIVE Starts(_, _)
Starts(s, from) ==
  IF \A i \in SCs(s) : i < from THEN << >>
  ELSE LET i == CHOOSE i \in SCs(s) : i >= from /\ \A j \in SCs(s) : j >= from => i <= j IN <<i>> \o Starts(s, i + 1)
\* NAL units available: between consecutive start codes; the last one only at end of input
Nals(s, final) ==
  LET st == Starts(s, 1) IN
  [k \in 1..(IF final THEN Len(st) ELSE (IF Len(st) = 0 THEN 0 ELSE Len(st) - 1)) |->
      SubBytes(s, st[k] - 1, (IF k < Len(st) THEN st[k + 1] ELSE Len(s) + 1) - st[k])]

StreamId1 == <<170, 187, 204, 221, 238, 255, 0, 1>>
N(x) == V64(x)
HdrIs(p, view, rec, free) ==
  \A n \in FieldNames(view) \ free : GetSem(p, 0, view, n) = (IF n \in DOMAIN rec THEN rec[n] ELSE Zero64)
PacketFor(p, k, nal) ==
  /\ Len(p) = 28 + Len(nal)
  /\ HdrIs(p, "Cvf", [subtype |-> N(3), sv |-> N(1), tv |-> N(1), sequence_num |-> N(k % 256), stream_id |-> StreamId1,
                      format |-> N(2), format_subtype |-> N(1), stream_data_length |-> N(Len(nal) + 4), m |-> N(1)], {"avtp_timestamp"})
  /\ SubBytes(p, 24, 4) = <<0, 0, 0, 0>>
  /\ SubBytes(p, 28, Len(nal)) = nal

NInit == stream = << >> /\ eof = FALSE /\ sent = 0 /\ mem = << >> /\ hb = << >> /\ out = Sentinel /\ step = << >>
Input(b) == ~eof /\ stream' = stream \o b /\ UNCHANGED <<eof, sent>>
Eof      == ~eof /\ eof' = TRUE /\ UNCHANGED <<stream, sent>>
Send(p)  == /\ sent < Len(Nals(stream, eof))
            /\ PacketFor(p, sent, Nals(stream, eof)[sent + 1])
            /\ sent' = sent + 1 /\ UNCHANGED <<stream, eof>>

=============================================================================
