INIT Init
NEXT Next
