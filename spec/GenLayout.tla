----------------------------- MODULE GenLayout -----------------------------
(* Prints the layout (names, widths, header lengths, groups) as JSON for the drivers.
   Bit positions are deliberately NOT exported: the drivers must not know them. *)
EXTENDS Wire1722, Json, TLC
VARIABLE d
SetToSeq(S) == CHOOSE s \in [1..Cardinality(S) -> S] : \A i, j \in 1..Cardinality(S) : i # j => s[i] # s[j]
Lay ==
  [ hdrlen |-> HdrLen,
    fields |-> [v \in Views |-> [n \in FieldNames(v) |-> FieldOf(v, n).w]],
    order  |-> [v \in Views |-> [i \in 1..Len(FieldsOf(v)) |-> FieldsOf(v)[i].name]],
    initviews |-> InitViews, legacyviews |-> LegacyViews, legacyinit |-> LegacyInitViews,
    shared |-> Shared, commonalias |-> CommonAlias,
    legacyaliasnames |-> { a.macro : a \in LegacyAlias } \cup { a.macro : a \in LegacyMaxAlias },
    legacystructnames |-> { s.name : s \in LegacyStructs } ]
Init == d = 0 /\ PrintT(ToJson(Lay))
Next == UNCHANGED d
=============================================================================
