------------------------------ MODULE VssCodec ------------------------------
(***************************************************************************)
(* Reference encoder / decoder of the ACF-VSS message                      *)
(* (examples/acf-vss/protocol_description/acf-vss.md), plus finalisation   *)
(* (C09) and the string-array helpers (C10).                               *)
(*                                                                         *)
(* A message lives in an arena m at offset h:                              *)
(*   12-byte header | path region | value region | ...                     *)
(* Values cross this specification as *logical big-endian bytes*: an       *)
(* integer or IEEE-754 pattern is the byte string of its value, most       *)
(* significant byte first; an array is the concatenation of its elements   *)
(* in order; a string is its octets.  The wire form of a value is exactly  *)
(* those bytes - preceded, for strings and arrays, by their byte count as  *)
(* a 16-bit big-endian number.  (Turning host-typed C values into these    *)
(* byte strings and back is the harness's job and involves no layout.)     *)
(***************************************************************************)
EXTENDS PduStore

VH == 12                                   \* fixed header length (HdrLen["Vss"])
ASSUME VH = HdrLen["Vss"]

\* datatype code -> element size; strings / arrays are variable length
Scalar == 0..11
IsArray(dt)   == dt >= 128 /\ dt <= 139
IsString(dt)  == dt = 11
IsVar(dt)     == IsString(dt) \/ IsArray(dt)
KnownType(dt) == dt \in 0..11 \/ IsArray(dt)
ElemSize(dt) ==
  LET k == IF dt >= 128 THEN dt - 128 ELSE dt IN
  CASE k \in {0, 1, 8, 11} -> 1
    [] k \in {2, 3}        -> 2
    [] k \in {4, 5, 9}     -> 4
    [] k \in {6, 7, 10}    -> 8
    [] OTHER               -> 1
WellTyped(dt, bytes) ==
  /\ KnownType(dt)
  /\ IF IsVar(dt) THEN Len(bytes) % ElemSize(dt) = 0 /\ Len(bytes) <= 65535
                  ELSE Len(bytes) = ElemSize(dt)

BE16(x) == <<x \div 256, x % 256>>
Rd16(m, at) == m[at + 1] * 256 + m[at + 2]       \* 16-bit BE number at byte offset `at` (0-based)

AddrMode(m, h) == Nat16(GetSem(m, h, "Vss", "addr_mode"))
DataType(m, h) == Nat16(GetSem(m, h, "Vss", "vss_datatype"))

(***************************************************************************)
(* Path                                                                    *)
(*   interop (0): 16-bit length + UTF-8 octets;  static id (1): 32 bits    *)
(***************************************************************************)
PathWire(mode, path) ==
  CASE mode = 0 -> BE16(Len(path)) \o path
    [] mode = 1 -> path                          \* 4 bytes
    [] OTHER    -> << >>                         \* reserved modes: nothing
PutPath(m, h, path) == Overlay(m, h + VH, PathWire(AddrMode(m, h), path))
PathLen(m, h) ==                                \* on-wire size of the path region
  CASE AddrMode(m, h) = 1 -> 4
    [] AddrMode(m, h) = 0 -> Rd16(m, h + VH) + 2
    [] OTHER -> 0
GetPath(m, h) ==
  CASE AddrMode(m, h) = 1 -> SubBytes(m, h + VH, 4)
    [] AddrMode(m, h) = 0 -> SubBytes(m, h + VH + 2, Rd16(m, h + VH))
    [] OTHER -> << >>

(***************************************************************************)
(* Value                                                                   *)
(***************************************************************************)
DataWire(dt, bytes) ==
  IF ~KnownType(dt) THEN << >>                   \* reserved datatype: nothing
  ELSE IF IsVar(dt) THEN BE16(Len(bytes)) \o bytes ELSE bytes
PutData(m, h, bytes) == Overlay(m, h + VH + PathLen(m, h), DataWire(DataType(m, h), bytes))
DataAt(m, h) == h + VH + PathLen(m, h)
\* decoded value: [len, bytes]; len is the byte count the message records (element size for scalars)
GetData(m, h) ==
  LET dt == DataType(m, h)  at == DataAt(m, h) IN
  IF ~KnownType(dt) THEN [len |-> 0, bytes |-> << >>]
  ELSE IF IsVar(dt) THEN [len |-> Rd16(m, at), bytes |-> SubBytes(m, at + 2, Rd16(m, at))]
  ELSE [len |-> ElemSize(dt), bytes |-> SubBytes(m, at, ElemSize(dt))]
MsgEnd(m, h) ==                                  \* offset just after the value region
  LET dt == DataType(m, h) IN
  DataAt(m, h) + (IF ~KnownType(dt) THEN 0 ELSE IF IsVar(dt) THEN 2 + Rd16(m, DataAt(m, h)) ELSE ElemSize(dt))

(***************************************************************************)
(* Finalisation (C09): vlen = message length in bytes including the header *)
(***************************************************************************)
VPad(vlen) == (4 - (vlen % 4)) % 4
PadMsg(m, h, vlen) ==
  LET m1 == Overlay(m, h + vlen, Fill(VPad(vlen), 0)) IN
  SetSem(SetSem(m1, h, "Vss", "acf_msg_length", V64((vlen + VPad(vlen)) \div 4)), h, "Vss", "pad", V64(VPad(vlen)))

(***************************************************************************)
(* String arrays (C10): a list of octet strings <-> its packed form        *)
(***************************************************************************)
RECURSIVE Pack(_)
Pack(list) == IF list = << >> THEN << >> ELSE BE16(Len(Head(list))) \o Head(list) \o Pack(Tail(list))
RECURSIVE UnpackFrom(_, _)
UnpackFrom(blob, at) ==                          \* list of strings starting at offset at
  IF at >= Len(blob) THEN << >>
  ELSE <<SubBytes(blob, at + 2, Rd16(blob, at))>> \o UnpackFrom(blob, at + 2 + Rd16(blob, at))
Unpack(blob) == UnpackFrom(blob, 0)
Count(blob)  == Len(Unpack(blob))
\* result of unpacking `req` strings into descriptors: wd[i] = 1: own descriptor with a destination, 0: own descriptor without
\* (length only), 2: the caller's ONE shared "skip" descriptor without destination (several entries of the pointer array name the
\* same object: it ends up holding the length of the last skipped string).  Entries beyond the packed count are left untouched.
UnpackResult(blob, req, wd) ==
  LET u == Unpack(blob)
      m == IF req < Len(u) THEN req ELSE Len(u)
      sh == { j \in 1..m : wd[j] = 2 }
      lastS == IF sh = {} THEN 0 ELSE CHOOSE j \in sh : \A k \in sh : k <= j
  IN [i \in 1..req |->
        IF wd[i] = 2 THEN (IF lastS = 0 THEN [len |-> 0, bytes |-> << >>, touched |-> 0]
                           ELSE [len |-> Len(u[lastS]), bytes |-> << >>, touched |-> 1])
        ELSE IF i <= Len(u) THEN [len |-> Len(u[i]), bytes |-> IF wd[i] = 1 THEN u[i] ELSE << >>, touched |-> 1]
        ELSE [len |-> 0, bytes |-> << >>, touched |-> 0]]

(***************************************************************************)
(* Operation descriptors [op, arg, n] and their result [post, len, bytes, ret] *)
(*   putpath(arg = path bytes / 4-byte id)   putdata(arg = value bytes)    *)
(*   calcpath  getpath  getdata(n = 1: with destination, 0: length only)   *)
(*   pad(n = message length)                                               *)
(* len/bytes: what the caller's result object must hold afterwards (bytes  *)
(* is empty when no destination was supplied); ret: returned number.       *)
(***************************************************************************)
VR(post, len, bytes, ret) == [post |-> post, len |-> len, bytes |-> bytes, ret |-> ret]
VssApply(m, h, o) ==
  CASE o.op = "putpath"  -> VR(PutPath(m, h, o.arg), 0, << >>, 0)
    [] o.op = "putdata"  -> VR(PutData(m, h, o.arg), 0, << >>, 0)
    [] o.op = "calcpath" -> VR(m, 0, << >>, PathLen(m, h))
    [] o.op = "getpath"  -> VR(m, Len(GetPath(m, h)), GetPath(m, h), 0)
    [] o.op = "getdata"  -> VR(m, GetData(m, h).len, IF o.n = 1 \/ ~IsVar(DataType(m, h)) THEN GetData(m, h).bytes ELSE << >>, 0)
    [] o.op = "pad"      -> VR(PadMsg(m, h, o.n), 0, << >>, 0)
=============================================================================
