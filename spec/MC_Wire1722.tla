---------------------------- MODULE MC_Wire1722 ----------------------------
(***************************************************************************)
(* Design-level theorems about the layout transcription (T3/T6 of          *)
(* DESIGN.md): every field lies inside its header, named fields of a view  *)
(* are pairwise disjoint, shared fields have identical position and width  *)
(* in every view of their group.  Checked by TLC as ASSUMEs (kept out of   *)
(* Wire1722 itself because TLC re-evaluates them in every run).            *)
(***************************************************************************)
EXTENDS Wire1722, TLC
VARIABLE dummy
(***************************************************************************)
(* Internal consistency of the transcription (checked by TLC as ASSUMEs).  *)
(***************************************************************************)
Bits(f) == f.start .. (f.start + f.w - 1)
ASSUME LayoutWellFormed ==
  /\ DOMAIN HdrLen = Views /\ DOMAIN Fields = Views
  /\ \A v \in Views :
       /\ HdrLen[v] % 4 = 0
       /\ \A i \in 1..Len(Fields[v]) :
            /\ Fields[v][i].w >= 1 /\ Fields[v][i].w <= 64
            /\ Fields[v][i].start + Fields[v][i].w <= 8 * HdrLen[v]
       /\ \A i, j \in 1..Len(Fields[v]) :
            i # j => /\ Fields[v][i].name # Fields[v][j].name
                     /\ Bits(Fields[v][i]) \cap Bits(Fields[v][j]) = {}
ASSUME SharedWellFormed ==
  \A g \in Shared : \A a, b \in g.views : \A n \in g.names :
      /\ n \in FieldNames(a)
      /\ FieldOf(a, n).start = FieldOf(b, n).start /\ FieldOf(a, n).w = FieldOf(b, n).w
ASSUME CommonAliasWellFormed ==
  \A n \in DOMAIN CommonAlias : \A v \in { "Aaf", "Pcm", "Cvf", "Crf", "Rvf", "Tscf", "Ntscf" } :
      /\ FieldOf("CommonHeader", n).start = FieldOf(v, CommonAlias[n]).start
      /\ FieldOf("CommonHeader", n).w = FieldOf(v, CommonAlias[n]).w
ASSUME InitWellFormed ==
  \A v \in InitViews : \A i \in 1..Len(InitConst[v]) : InitConst[v][i].name \in FieldNames(v)

\* C03 at the design level: the quadlets a field occupies, relative to the header start,
\* all lie inside the published header length.
Quadlets(f) == (f.start \div 32) .. ((f.start + f.w - 1) \div 32)
ASSUME QuadletsInside ==
  \A v \in Views : \A i \in 1..Len(Fields[v]) : \A q \in Quadlets(Fields[v][i]) : 4 * (q + 1) <= HdrLen[v]
NFields == [v \in Views |-> Len(Fields[v])]
ASSUME PrintT(<<"layout", NFields>>)
Init == dummy = 0
Next == UNCHANGED dummy
=============================================================================
