SPECIFICATION GSpec
CONSTANTS
  Buf = {1}
  Scn = "get"
  GViews = {"Can", "Gpc", "Rvf", "Cvf", "Crf", "Most", "FlexRay", "Pcm", "Aaf", "Tscf"}
  NRand = 2
  Walk = TRUE
  Depth = 1
CONSTRAINT Emit
CHECK_DEADLOCK FALSE
