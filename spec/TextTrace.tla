------------------------------ MODULE TextTrace ------------------------------
(* Trace specification for TextListener: {"e":"dgram","bytes":[..],"out":[..]} - one datagram handed to the real
   hello-world listener loop and what it printed before asking for the next one; {"e":"reset"} - a new process. *)
EXTENDS TextListener, Json, IOUtils, TLC
Tr == ndJsonDeserialize(IOEnv.TRACE)
VARIABLE l
ASSUME Buf = {1}
TInit == l = 1 /\ Init /\ mem = << >> /\ hb = << >> /\ out = Sentinel /\ step = << >>
TNext ==
  /\ l <= Len(Tr) /\ l' = l + 1 /\ UNCHANGED <<mem, hb, out, step>>
  /\ LET ev == Tr[l] IN
     \/ ev.e = "dgram" /\ Datagram(ev.bytes) /\ lastline' = ev.out
     \/ ev.e = "reset" /\ printed' = << >> /\ lastline' = << >>
TSpec == TInit /\ [][TNext]_<<tvars, l, mem, hb, out, step>>
TraceAccepted == TLCGet("stats").diameter - 1 = Len(Tr)
=============================================================================
