------------------------------- MODULE GenHist -------------------------------
(***************************************************************************)
(* Histories: finite sequences of initialisations, writes and reads on     *)
(* several buffers, through any entry point and - for the shared fields -  *)
(* through any view of a group (C05, C17).                                 *)
(*                                                                         *)
(* `shadow[b]` is the abstract record of buffer b: the value each field of *)
(* its view should read as (last value written modulo the width, or the    *)
(* initial / initialised content).  RecordView states the refinement       *)
(* "a PDU is a record of independent fields": decoding the bytes through   *)
(* the layout always yields the shadow record.                             *)
(*                                                                         *)
(* `hist` records the operations of the behaviour with everything the      *)
(* specification predicts; when the behaviour is complete the constraint   *)
(* EmitHist prints it and it is replayed, in one process and without       *)
(* resets, against the C library.                                          *)
(*   Mode "record": each buffer has one view (HViews); ops: init/set/get   *)
(*   Mode "views" : each buffer belongs to a Shared group; ops: set via    *)
(*                  view A, get via view B on the group's shared fields    *)
(***************************************************************************)
EXTENDS PduStore, Json, FiniteSets
CONSTANTS Mode, HViews, Depth, NVals, Imgs,
          Rand      \* TRUE (simulation): one random operation per step instead of all of them
VARIABLES n, hist, shadow, vw, m0, done
hvars == <<mem, hb, out, step, n, hist, shadow, vw, m0, done>>

PatByte(k, i) ==
  IF k = 0 THEN 0 ELSE IF k = 1 THEN 255
  ELSE (((i * i * 7 + 13 * i * k + 101 * k * k + 29) % 251) + ((i * k) % 5)) % 256
Pat(k, len) == Mat([i \in 1..len |-> PatByte(k, i)])

AllFF  == Fill(8, 255)
AltA   == Fill(8, 170)
Alt5   == Fill(8, 85)
C3     == <<195, 60, 195, 60, 195, 60, 195, 60>>
ValSeq == << AltA, Alt5, AllFF, Zero64, C3 >>
Vals   == { ValSeq[i] : i \in 1..NVals }

Op(op, v, f, p, x) == [op |-> op, view |-> v, field |-> f, path |-> p, val |-> x, id |-> ""]
Paths(v) == {"generic", "dedicated"} \cup (IF v \in LegacyViews THEN {"legacy"} ELSE {})
InitPaths(v) == {"current"} \cup (IF v \in LegacyInitViews THEN {"legacy"} ELSE {})

GroupSeq == << "G1", "G2", "G3", "G4" >>
GroupOf(g) ==
  CASE g = "G1" -> [ views |-> { "Aaf", "Pcm", "Cvf", "Crf", "Rvf", "Tscf", "Ntscf" }, names |-> { "subtype", "sv", "version" } ]
    [] g = "G2" -> [ views |-> StreamViews,
                     names |-> { "mr", "tv", "sequence_num", "tu", "stream_id", "avtp_timestamp", "stream_data_length" } ]
    [] g = "G3" -> [ views |-> { "Aaf", "Pcm" }, names |-> { "format", "sp", "evt" } ]
    [] g = "G4" -> [ views |-> AcfViews, names |-> { "acf_msg_type", "acf_msg_length" } ]
ASSUME \A i \in 1..Len(GroupSeq) : GroupOf(GroupSeq[i]) \in Shared
MaxLen(S) == CHOOSE x \in { HdrLen[v] : v \in S } : \A y \in { HdrLen[v] : v \in S } : y <= x

\* abstract record of a typed buffer
Decode(m, h, v) == [f \in FieldNames(v) |-> GetSem(m, h, v, f)]
ShadowAfter(sh, m, h, o) ==
  CASE o.op = "set"  -> [sh EXCEPT ![o.field] = Low(IF o.path = "legacy" THEN LegacyVal(o.view, o.val) ELSE o.val, FW(o.view, o.field))]
    [] o.op = "init" -> Decode(Overlay(Fill(h + HdrLen[o.view], 0), h,
                                       IF o.path = "legacy" /\ o.view = "Cvf" THEN CanonHdrCvfLegacy(o.val) ELSE CanonHdr(o.view)), h, o.view)
    [] OTHER -> sh

HInit ==
  /\ n = 0 /\ hist = << >> /\ out = Sentinel /\ done = FALSE
  /\ IF Mode = "record"
       THEN \E v \in HViews : \E k \in Imgs :
              /\ vw = [b \in Buf |-> v]
              /\ hb = [b \in Buf |-> IF b = 1 THEN 0 ELSE 3]
              /\ mem = [b \in Buf |-> IF b = 1 THEN Pat(k, HdrLen[v]) ELSE Pat(k + b, HdrLen[v] + 7)]
       ELSE \E g \in HViews : \E k \in Imgs :
              /\ vw = [b \in Buf |-> g]
              /\ hb = [b \in Buf |-> 0]
              /\ mem = [b \in Buf |-> Pat(k, MaxLen(GroupOf(g).views))]
  /\ shadow = [b \in Buf |-> IF Mode = "record" THEN Decode(mem[b], hb[b], vw[b]) ELSE << >>]
  /\ m0 = mem
  /\ step = Op("start", "", "", "", Zero64) @@
            [buf |-> 1, base |-> 0, pre |-> << >>, post |-> << >>, ret |-> NoRet, rc |-> 0, out |-> Sentinel]

OpsOn(b) ==
  IF Mode = "record"
    THEN LET v == vw[b] IN
         { Op("get", v, f, p, Zero64) : f \in FieldNames(v), p \in Paths(v) }
         \cup UNION { { Op("set", v, f, p, x) : x \in Vals, p \in Paths(v) } : f \in FieldNames(v) }
         \cup (IF v \in InitViews THEN { Op("init", v, "", p, IF p = "legacy" /\ v = "Cvf" THEN V64(1) ELSE Zero64) : p \in InitPaths(v) } ELSE {})
    ELSE LET g == GroupOf(vw[b]) IN
         IF n % 2 = 0
           THEN UNION { { Op("set", v, f, "generic", x) : x \in Vals, v \in g.views } : f \in g.names }
                \cup UNION { { Op("set", v, f, "dedicated", x) : x \in Vals, v \in g.views } : f \in g.names }
           ELSE { Op("get", v, step.field, p, Zero64) : v \in g.views \ {step.view}, p \in {"generic", "dedicated"} }

Rec(s) == [buf |-> s.buf, base |-> s.base, op |-> s.op, view |-> s.view, field |-> s.field, path |-> s.path,
           val |-> s.val, post |-> s.post, ret |-> s.ret, rc |-> s.rc, out |-> s.out]

Pick(S) == IF Rand THEN { RandomElement(S) } ELSE S
Step ==
  /\ n < Depth /\ n' = n + 1
  /\ \E b \in (IF Mode = "views" /\ n % 2 = 1 THEN {step.buf} ELSE Pick(Buf)) : \E o \in Pick(OpsOn(b)) :
       /\ Do(b, o)
       /\ shadow' = IF Mode = "record" THEN [shadow EXCEPT ![b] = ShadowAfter(shadow[b], mem[b], hb[b], o)] ELSE shadow
  /\ hist' = Append(hist, Rec(step'))
  /\ UNCHANGED <<vw, m0, done>>
\* a behaviour ends with one Finish step; EmitHist prints the history in that (single) state
Finish == n = Depth /\ ~done /\ done' = TRUE /\ UNCHANGED <<mem, hb, out, step, n, hist, shadow, vw, m0>>
HNext == Step \/ Finish
HSpec == HInit /\ [][HNext]_hvars

\* T9: the bytes of every typed buffer always decode to its abstract record
RecordView ==
  Mode = "record" => \A b \in Buf : Decode(mem[b], hb[b], vw[b]) = shadow[b]
\* reads return the abstract record's entry (last value written, or initial content)
ReadsLastWritten ==
  (Mode = "record" /\ step.op = "get") =>
     (IF step.path = "legacy" THEN step.out ELSE step.ret) = shadow[step.buf][step.field]
\* C17: a read through view B returns what was just written through view A
ViewsAgree ==
  (Mode = "views" /\ step.op = "get" /\ Len(hist) >= 2) =>
     step.ret = Low(hist[Len(hist) - 1].val, FW(step.view, step.field))

\* print complete behaviours: initial buffers + operations with predicted results
EmitHist ==
  \/ ~done
  \/ PrintT(ToJson([bufs |-> [b \in Buf |-> [base |-> hb[b], mem |-> m0[b]]], ops |-> hist]))
=============================================================================
