------------------------------- MODULE GenNal -------------------------------
(* Scenario enumeration for the CVF talker: every byte stream made of up to MaxTok tokens from
   {start code, 00, 01, 00 00, A5, A5 5A 00} x chunkings (whole, fixed sizes 3..5, one split at every position >= 3).
   Model-level theorem: Nals is independent of the chunking by construction (it is a function of the stream);
   here TLC checks that the units partition the stream from its first start code on. *)
EXTENDS NalSplit, FiniteSets, Json, TLC
CONSTANTS MaxTok
VARIABLES toks
Tok == << <<0, 0, 1>>, <<0>>, <<1>>, <<0, 0>>, <<165>>, <<165, 90, 0>> >>
RECURSIVE Flat(_)
Flat(ts) == IF ts = << >> THEN << >> ELSE Tok[Head(ts)] \o Flat(Tail(ts))
GInit == toks \in UNION { [1..n -> 1..Len(Tok)] : n \in 1..MaxTok } /\ NInit
GNext == UNCHANGED <<toks, stream, eof, sent, mem, hb, out, step>>
GSpec == GInit /\ [][GNext]_<<toks, stream, eof, sent, mem, hb, out, step>>
RECURSIVE Cat(_)
Cat(ss) == IF ss = << >> THEN << >> ELSE Head(ss) \o Cat(Tail(ss))
Partition ==
  LET s == Flat(toks)  ns == Nals(s, TRUE)  st == Starts(s, 1) IN
  IF Len(st) = 0 THEN Len(ns) = 0 ELSE Cat(ns) = SubBytes(s, st[1] - 1, Len(s) - st[1] + 1)
Emit == PrintT(ToJson([stream |-> Flat(toks)]))
=============================================================================
