------------------------------- MODULE BoTrace -------------------------------
(* Trace specification for the byte-order helpers: recorded calls
   {"e":"bo","fn","size","branch","mem","x","val","img"} must agree with ByteOrder. *)
EXTENDS ByteOrder, Json, IOUtils, Sequences, TLC
Tr == ndJsonDeserialize(IOEnv.TRACE)
VARIABLE l
TInit == l = 1
TNext == /\ l <= Len(Tr) /\ l' = l + 1
         /\ LET ev == Tr[l] IN
            /\ ev.e = "bo" /\ Len(ev.x) = ev.size
            /\ ev.val = Helper(ev.branch, ev.fn, ev.x)
            /\ ev.img = Store(ev.mem, ev.val)
            \* for the set selected for the memory order of this host: the images the property names
            /\ (ev.branch = ev.mem /\ ev.fn = "CpuToBe" => ev.img = ev.x)
            /\ (ev.branch = ev.mem /\ ev.fn = "CpuToLe" => ev.img = Rev(ev.x))
TSpec == TInit /\ [][TNext]_l
TraceAccepted == TLCGet("stats").diameter - 1 = Len(Tr)
=============================================================================
