------------------------------ MODULE GenStrArr ------------------------------
(***************************************************************************)
(* String arrays (C10), small-scope exhaustive: every list of 0..MaxN      *)
(* strings of length 0..MaxL over a two-byte alphabet is packed, counted   *)
(* and unpacked - with every requested count smaller, equal and greater    *)
(* than the packed count, with every pattern of supplied / omitted         *)
(* destinations (a string without destination only reports its length).    *)
(***************************************************************************)
EXTENDS VssCodec, Json, FiniteSets
CONSTANTS MaxN, MaxL, Extra
VARIABLES n, lst, sstep
svars == <<n, lst, sstep, mem, hb, out, step>>      \* (mem/hb/out/step of PduStore are not used here)

Alpha == {0, 97}                                     \* includes the NUL octet
Strs  == UNION { [1..l -> Alpha] : l \in 0..MaxL }
Lists == UNION { [1..k -> Strs] : k \in 0..MaxN }
\* special cases beyond the small scope: many empty strings (count above 255), long strings
EmptyN(k) == Mat([i \in 1..k |-> << >>])
LongStr(l) == Mat([i \in 1..l |-> (i * 7) % 256])
\* ... and arrays whose recorded total reaches the end of the 16-bit range (65533, 65534, 65535 bytes): index arithmetic that wraps
Specials == IF Extra THEN { EmptyN(300), EmptyN(256), EmptyN(255), <<LongStr(300), << >>, LongStr(2)>>, <<LongStr(4000)>>,
                            <<LongStr(65533)>>, <<LongStr(65532)>>, <<LongStr(65531)>>, <<LongStr(32766), LongStr(32765)>>, <<LongStr(255), LongStr(256)>> }
            ELSE {}

SOp(op, req, wd) == [op |-> op, req |-> req, withdest |-> wd]
Requests(k) == { r \in {0, k - 1, k, k + 1, k + 5} : r >= 0 /\ r <= 8 }
\* which of the requested strings get a destination (1) and which only report their length (0):
\* every pattern for up to 3 requests, six characteristic ones beyond
DestPats(req) ==
  IF req <= 3 THEN { Mat(f) : f \in [1..req -> {0, 1, 2}] }             \* (2: the shared skip descriptor, see VssCodec.UnpackResult)
  ELSE { Mat([i \in 1..req |-> IF i = req THEN 1 ELSE 2]), Mat([i \in 1..req |-> IF i % 2 = 1 THEN 2 ELSE 1]), Mat([i \in 1..req |-> 0]), Mat([i \in 1..req |-> 1]), Mat([i \in 1..req |-> i % 2]), Mat([i \in 1..req |-> (i + 1) % 2]),
         Mat([i \in 1..req |-> IF i = 1 THEN 1 ELSE 0]), Mat([i \in 1..req |-> IF i = 1 THEN 0 ELSE 1]) }

SInit == n = 0 /\ lst \in (Lists \cup Specials)
         /\ mem = << >> /\ hb = << >> /\ out = Sentinel /\ step = << >>
         /\ sstep = SOp("start", 0, << >>) @@ [list |-> << >>, blob |-> << >>, count |-> 0, res |-> << >>]
\* result of unpacking `req` strings: for i <= min(req, count): [len, bytes]; entries beyond the count are left untouched
UnpackRes(blob, req, wd) == UnpackResult(blob, req, wd)
SNext ==
  /\ n' = n + 1 /\ UNCHANGED <<lst, mem, hb, out, step>>
  /\ LET blob == Pack(lst) IN
     \/ /\ n = 0
        /\ sstep' = SOp("pack", Len(lst), << >>) @@ [list |-> lst, blob |-> blob, count |-> Len(lst), res |-> << >>]
     \/ /\ n = 1
        /\ sstep' = SOp("count", 0, << >>) @@ [list |-> lst, blob |-> blob, count |-> Count(blob), res |-> << >>]
     \/ /\ n = 1 /\ Len(lst) <= 8
        /\ \E req \in Requests(Len(lst)) : \E wd \in DestPats(req) :
             sstep' = SOp("unpack", req, wd) @@ [list |-> lst, blob |-> blob, count |-> Count(blob), res |-> UnpackRes(blob, req, wd)]
SSpec == SInit /\ [][SNext]_svars

\* theorems: count and unpack invert pack
RoundTrip ==
  sstep.op \in {"count", "unpack"} => /\ Count(sstep.blob) = Len(sstep.list)
                                      /\ Unpack(sstep.blob) = sstep.list
TotalLen == sstep.op = "pack" => Len(sstep.blob) = Len(sstep.list) * 2 + (LET RECURSIVE S(_) S(l) == IF l = << >> THEN 0 ELSE Len(Head(l)) + S(Tail(l)) IN S(sstep.list))
Emit == sstep.op = "start" \/ PrintT(ToJson(sstep))
=============================================================================
