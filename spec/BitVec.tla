------------------------------ MODULE BitVec ------------------------------
(***************************************************************************)
(* Bit-level view of PDU memory.                                           *)
(*                                                                         *)
(* Memory is a sequence of bytes (naturals 0..255), index 1 = first octet  *)
(* on the wire.  Bit k (k >= 0) of a memory image is bit 7-(k % 8) of     *)
(* octet (k \div 8) - i.e. most significant bit first, network order, the  *)
(* numbering IEEE 1722 uses in all its header figures.                     *)
(*                                                                         *)
(* A 64-bit value is a sequence of 8 bytes, most significant first (TLC    *)
(* integers are 32 bit; nothing here ever computes a number above 2^16).   *)
(***************************************************************************)
EXTENDS Naturals, Sequences

P2 == <<1, 2, 4, 8, 16, 32, 64, 128>>          \* P2[i+1] = 2^i

Byte == 0..255
IsMem(m)   == m \in Seq(Byte)
Zero64     == <<0, 0, 0, 0, 0, 0, 0, 0>>

\* TLC represents [i \in S |-> e] lazily and re-evaluates e at every application;
\* concatenating with the empty sequence forces a concrete tuple.  Semantically Mat(f) = f.
Mat(f) == f \o << >>

\* bit k of a byte sequence (memory image or value), MSB first
BitAt(m, k) == (m[(k \div 8) + 1] \div P2[8 - (k % 8)]) % 2

\* assemble a byte from a bit function b(0) (MSB) .. b(7) (LSB)
ByteOf(b(_)) == b(0)*128 + b(1)*64 + b(2)*32 + b(3)*16 + b(4)*8 + b(5)*4 + b(6)*2 + b(7)

(***************************************************************************)
(* Low(v, w): v modulo 2^w as a 64-bit value (w in 0..64).                 *)
(***************************************************************************)
Low(v, w) ==
  Mat([j \in 1..8 |->
     LET B(k) == LET t == 8*(j-1) + k IN IF t >= 64 - w THEN BitAt(v, t) ELSE 0
     IN  ByteOf(B)])

(***************************************************************************)
(* Extract(m, start, w): the w bits of m starting at bit `start`, as a     *)
(* zero-extended 64-bit value.  Requires start + w <= 8 * Len(m), w <= 64. *)
(***************************************************************************)
Extract(m, start, w) ==
  Mat([j \in 1..8 |->
     LET B(k) == LET t == 8*(j-1) + k IN
                 IF t >= 64 - w THEN BitAt(m, start + t - (64 - w)) ELSE 0
     IN  ByteOf(B)])

(***************************************************************************)
(* Deposit(m, start, w, v): m with bits start .. start+w-1 replaced by the *)
(* low w bits of v (most significant of those first); every other bit of m *)
(* is unchanged.  Defined independently of Extract.                        *)
(***************************************************************************)
Deposit(m, start, w, v) ==
  Mat([i \in 1..Len(m) |->
     IF w = 0 \/ 8*i <= start \/ 8*(i-1) >= start + w
       THEN m[i]
       ELSE LET B(k) == LET p == 8*(i-1) + k IN
                        IF p >= start /\ p < start + w
                          THEN BitAt(v, 64 - w + (p - start))
                          ELSE BitAt(m, p)
            IN  ByteOf(B)])

\* memory with bytes lo+1 .. lo+n (1-based lo+1) replaced by sequence s (Len(s) = n)
Overlay(m, lo, s) ==
  Mat([i \in 1..Len(m) |-> IF i > lo /\ i <= lo + Len(s) THEN s[i - lo] ELSE m[i]])

\* n copies of byte b
Fill(n, b) == Mat([i \in 1..n |-> b])

\* big-endian encoding of a natural x < 2^31 in n bytes (n <= 4 meaningful; higher bytes 0)
BE(x, n) == Mat([i \in 1..n |-> IF n - i >= 4 THEN 0
                             ELSE (x \div (IF n - i = 0 THEN 1 ELSE IF n - i = 1 THEN 256
                                           ELSE IF n - i = 2 THEN 65536 ELSE 16777216)) % 256])

\* a 64-bit value from a small natural (x < 2^31)
V64(x) == BE(x, 8)

\* the natural denoted by the low 4 bytes (only if < 2^31), used for lengths
Nat16(v) == v[7] * 256 + v[8]

SubBytes(m, lo, n) == Mat([i \in 1..n |-> m[lo + i]])      \* bytes lo+1 .. lo+n
\* minimal perturbations of an image (used to derive near-valid prior contents from an operation's own result)
FlipBit(m, p) ==                           \* bit p (0 = msb of byte 1) of m inverted
  LET i == (p \div 8) + 1  k == P2[8 - (p % 8)] IN
  [m EXCEPT ![i] = IF (@ \div k) % 2 = 1 THEN @ - k ELSE @ + k]
RevQuad(m, q) ==                           \* quadlet q (0-based) byte-reversed
  [m EXCEPT ![4*q + 1] = m[4*q + 4], ![4*q + 2] = m[4*q + 3], ![4*q + 3] = m[4*q + 2], ![4*q + 4] = m[4*q + 1]]
=============================================================================
