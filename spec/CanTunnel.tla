------------------------------ MODULE CanTunnel ------------------------------
(***************************************************************************)
(* The example CAN tunnel (C19) as a state machine.                        *)
(*                                                                         *)
(*   CAN bus A --read--> talker --packet--> listener --write--> CAN bus B  *)
(*                                                                         *)
(* inq     frames the talker has read from bus A, in order                 *)
(* pending frames read but not yet sent (the packet under assembly)        *)
(* wire    packets sent and not yet delivered (bytes)                      *)
(* outq    frames the listener has written to bus B                        *)
(*                                                                         *)
(* A frame is [id (4 bytes, 29 significant bits), eff, rtr, fdf, brs, esi, *)
(* data].  What a packet *means* is defined by Decode, the reference       *)
(* parser built from the normative layouts (Wire1722): UDP sequence word   *)
(* (optional), TSCF or NTSCF control header, then ACF-CAN messages back to *)
(* back.  Send is enabled only for a packet that decodes to exactly the    *)
(* pending frames and whose control header announces exactly the bytes the *)
(* ACF messages occupy; Deliver only if the listener wrote exactly the     *)
(* frames the packet decodes to.  Transparency: outq is always a prefix of *)
(* inq.                                                                    *)
(***************************************************************************)
EXTENDS PduStore, SequencesExt

CONSTANTS Tscf, Udp, Fd, Count       \* configuration of the run (0/1, 0/1, 0/1, messages per packet)
VARIABLES inq, pending, wire, outq,
          nsent,    \* packets sent so far in this run (the talker numbers them: sequence_num, UDP encapsulation sequence)
          start     \* the talker's 32-bit packet counter when the run begins, as 4 bytes (everything it sent before is abstracted into it)
tvars == <<inq, pending, wire, outq, nsent, start>>

G(m, h, v, f) == Nat16(GetSem(m, h, v, f))        \* small fields as naturals
Id29(m, h) == SubBytes(GetSem(m, h, "Can", "can_identifier"), 4, 4)

\* one ACF-CAN message at offset h of packet m, as a frame
AcfFrame(m, h) ==
  LET len == G(m, h, "Can", "acf_msg_length") * 4 - HdrLen["Can"] - G(m, h, "Can", "pad") IN
  [ id |-> Id29(m, h), eff |-> G(m, h, "Can", "eff"), rtr |-> G(m, h, "Can", "rtr"), fdf |-> G(m, h, "Can", "fdf"),
    brs |-> G(m, h, "Can", "brs"), esi |-> G(m, h, "Can", "esi"), data |-> SubBytes(m, h + HdrLen["Can"], len) ]
AcfOk(m, h, limit) ==
  /\ h + HdrLen["Can"] <= limit
  /\ G(m, h, "Can", "acf_msg_type") = 1
  /\ G(m, h, "Can", "acf_msg_length") * 4 >= HdrLen["Can"] + G(m, h, "Can", "pad")
  /\ h + G(m, h, "Can", "acf_msg_length") * 4 <= limit
\* what a malformed packet "decodes to": frame-shaped (TLC can compare it with real frames) but equal to no frame (flags are 0/1)
BadPacket == << [ id |-> <<0, 0, 0, 0>>, eff |-> 2, rtr |-> 2, fdf |-> 2, brs |-> 2, esi |-> 2, data |-> << >> ] >>
RECURSIVE Walk(_, _, _)
Walk(m, h, limit) ==                     \* frames of the ACF messages in m[h..limit); "bad" if malformed
  IF h = limit THEN << >>
  ELSE IF ~AcfOk(m, h, limit) THEN BadPacket
  ELSE <<AcfFrame(m, h)>> \o Walk(m, h + G(m, h, "Can", "acf_msg_length") * 4, limit)

CfOff == IF Udp = 1 THEN HdrLen["Udp"] ELSE 0
CfView == IF Tscf = 1 THEN "Tscf" ELSE "Ntscf"
CfLenField == IF Tscf = 1 THEN "stream_data_length" ELSE "ntscf_data_length"
\* the control header is the one the configuration asks for and its length field covers the rest of the packet
CfOk(p) ==
  /\ Len(p) >= CfOff + HdrLen[CfView]
  /\ G(p, CfOff, CfView, "subtype") = (IF Tscf = 1 THEN 5 ELSE 130)
  /\ G(p, CfOff, CfView, CfLenField) = Len(p) - CfOff - HdrLen[CfView]
Decode(p) == IF CfOk(p) THEN Walk(p, CfOff + HdrLen[CfView], Len(p)) ELSE BadPacket
\* the talker numbers its packets
\* start + k modulo 2^32 on bytes (TLC's integers have 32 bits; k is small)
Add32(b, k) == LET lo == b[3] * 256 + b[4] + k
                   hi == (b[1] * 256 + b[2] + lo \div 65536) % 65536
               IN  << hi \div 256, hi % 256, (lo % 65536) \div 256, lo % 256 >>
Numbered(p, k) == /\ G(p, CfOff, CfView, "sequence_num") = (start[4] + k) % 256
                  /\ (Udp = 1 => SubBytes(p, 0, 4) = Add32(start, k))

Init == inq = << >> /\ pending = << >> /\ wire = << >> /\ outq = << >> /\ nsent = 0 /\ start = <<0, 0, 0, 0>>
Read(f) ==
  /\ Len(pending) < Count
  /\ inq' = Append(inq, f) /\ pending' = Append(pending, f) /\ UNCHANGED <<wire, outq, nsent, start>>
Send(p) ==
  /\ Len(pending) = Count
  /\ Decode(p) = pending                       \* the packet carries exactly the frames read, CF length right
  /\ Numbered(p, nsent)
  /\ wire' = Append(wire, p) /\ pending' = << >> /\ nsent' = nsent + 1 /\ UNCHANGED <<inq, outq, start>>
Deliver(p, fs) ==
  /\ wire # << >> /\ p = Head(wire)
  /\ fs = Decode(p)                            \* the listener wrote exactly what the packet means
  /\ outq' = outq \o fs /\ wire' = Tail(wire) /\ UNCHANGED <<inq, pending, nsent, start>>

Transparent == IsPrefix(outq, inq)
=============================================================================
