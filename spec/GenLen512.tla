------------------------------ MODULE GenLen512 ------------------------------
(* C09: the length accessors of the VSS header carry every value the 9-bit field can hold:
   Set(acf_msg_length, x) for x in 0..511 through the dedicated and generic writers, read back. *)
EXTENDS PduStore, Json
VARIABLE n
gvars == <<mem, hb, out, step, n>>
Op(op, v, f, p, x) == [op |-> op, view |-> v, field |-> f, path |-> p, val |-> x, id |-> ""]
GInit == /\ mem = [b \in Buf |-> Fill(12, 90)] /\ hb = [b \in Buf |-> 0] /\ out = Sentinel /\ n = 0
         /\ step = Op("start", "Vss", "", "", Zero64) @@ [buf |-> 1, base |-> 0, pre |-> << >>, post |-> << >>, ret |-> NoRet, rc |-> 0, out |-> Sentinel]
GNext == n = 0 /\ n' = 1 /\ \E x \in 0..511 : \E p \in {"generic", "dedicated"} : \E v \in {"Vss", "VssBrief", "AcfCommon"} :
            Do(1, Op("set", v, "acf_msg_length", p, V64(x)))
GSpec == GInit /\ [][GNext]_gvars
Emit == step.op = "start" \/ PrintT(ToJson(step @@ [rb |-> GetSem(mem[1], hb[1], step.view, step.field)]))
=============================================================================
