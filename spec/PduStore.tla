------------------------------ MODULE PduStore ------------------------------
(***************************************************************************)
(* The library as what it is: a state machine over caller memory.          *)
(*                                                                         *)
(* State: `mem[b]` - the bytes of buffer b (an "arena": optional leading   *)
(* bytes, the header at offset hb[b], optional trailing bytes: payload and *)
(* whatever follows), and `out` - the caller's result object of the        *)
(* deprecated getters.  There is no other state: results depend only on    *)
(* arguments and the bytes of the buffer addressed (C05, C16).             *)
(*                                                                         *)
(* Every API entry point is an *operation descriptor* `o`; `Apply(m,h,o)`  *)
(* gives the new arena, the returned value, the return code and the new    *)
(* content of the result object, defined from the normative layout of      *)
(* Wire1722 only.  One action `Do(b,o)` applies it.  `step` is a ghost     *)
(* variable describing the last transition; generator configurations print *)
(* it (replay into the C code), trace specifications match it against      *)
(* recorded calls.                                                         *)
(***************************************************************************)
EXTENDS BitVec, Wire1722, TLC

EINVAL == 22
NoRet  == Zero64
Sentinel == <<165, 90, 165, 90, 165, 90, 165, 90>>   \* prior content of a result object

(***************************************************************************)
(* Reference encodings                                                     *)
(***************************************************************************)
FStart(v, n) == FieldOf(v, n).start
FW(v, n)     == FieldOf(v, n).w

\* canonical header of view v: all zero except the mandated constants
RECURSIVE PutConsts(_, _, _)
PutConsts(h, cs, i) ==
  IF i > Len(cs) THEN h
  ELSE PutConsts(Deposit(h, cs[i].start, cs[i].w, V64(cs[i].val)), cs, i + 1)
CanonHdr(v) ==
  LET cs == [i \in 1..Len(InitConst[v]) |->
               [start |-> FStart(v, InitConst[v][i].name), w |-> FW(v, InitConst[v][i].name),
                val |-> InitConst[v][i].val]]
  IN  PutConsts(Fill(HdrLen[v], 0), cs, 1)
\* the deprecated CVF initialiser additionally stores its format_subtype argument
CanonHdrCvfLegacy(sub) == Deposit(CanonHdr("Cvf"), FStart("Cvf", "format_subtype"), 8, sub)

\* (LET forces one evaluation of the descriptor: TLC passes operator arguments by name)
GetSem(m, h, v, n)    == LET f == FieldOf(v, n)  s == 8*h + f.start  w == f.w IN Extract(m, s, w)
SetSem(m, h, v, n, x) == LET f == FieldOf(v, n)  s == 8*h + f.start  w == f.w IN Deposit(m, s, w, x)
InitSem(m, h, v)      == Overlay(m, h, CanonHdr(v))

(***************************************************************************)
(* Operation descriptors.                                                  *)
(*   op   : "get" | "set" | "init" | "nullget" | "nullset" | "nullinit"    *)
(*          | "badget" | "badset" | "nullout" | "payload"                  *)
(*   view : a view of Wire1722     field : field name (get/set)            *)
(*   path : "generic" | "dedicated" | "legacy"                             *)
(*   val  : 64-bit value (set; legacy cvf init: format_subtype)            *)
(*   id   : symbolic out-of-range identifier class (bad ops)                 *)
(* Every descriptor carries all of these (unused ones are "" / Zero64).    *)
(* Result: [post, ret, rc, out]                                            *)
(***************************************************************************)
R(post, ret, rc, out) == [post |-> post, ret |-> ret, rc |-> rc, out |-> out]

\* the deprecated common-header accessors carry 32-bit values
LegacyVal(v, x) == IF v = "CommonHeader" THEN Low(x, 32) ELSE x

Apply(m, h, o, outPre) ==
  CASE o.op = "get" ->
         LET r == GetSem(m, h, o.view, o.field) IN
         IF o.path = "legacy" THEN R(m, NoRet, 0, r) ELSE R(m, r, 0, outPre)
    [] o.op = "set" ->
         R(SetSem(m, h, o.view, o.field,
                  IF o.path = "legacy" THEN LegacyVal(o.view, o.val) ELSE o.val),
           NoRet, 0, outPre)
    [] o.op = "init" ->
         IF o.path = "legacy" /\ o.view = "Cvf"
           THEN R(Overlay(m, h, CanonHdrCvfLegacy(o.val)), NoRet, 0, outPre)
           ELSE R(InitSem(m, h, o.view), NoRet, 0, outPre)
    \* ---- invalid arguments (C11): nothing is written, nothing faults ----
    [] o.op \in {"nullget", "badget"} ->     \* null PDU / identifier outside the enumeration
         IF o.path = "legacy" THEN R(m, NoRet, EINVAL, outPre) ELSE R(m, Zero64, 0, outPre)
    [] o.op \in {"nullset", "badset", "nullinit"} ->
         IF o.path = "legacy" THEN R(m, NoRet, EINVAL, outPre) ELSE R(m, NoRet, 0, outPre)
    [] o.op = "nullout" ->                   \* deprecated getter with a null result pointer
         R(m, NoRet, EINVAL, outPre)
    [] o.op = "payload" ->                   \* payload accessor: the address right after the header (C03)
         R(m, V64(HdrLen[o.view]), 0, outPre)
    [] o.op = "getalias" ->                  \* deprecated getter whose RESULT OBJECT lies inside the buffer, Nat16(o.val) bytes behind the
         \* header start (in-place conversion of a received header to host order): the field is read first, then the result is
         \* stored; the object is 8 bytes (4 for the common header) in host order - little-endian on the platform the checks run on
         LET r == GetSem(m, h, o.view, o.field)  k == Nat16(o.val)
             sz == IF o.view = "CommonHeader" THEN 4 ELSE 8
             img == [i \in 1..sz |-> r[9 - i]] \o << >>
         IN R(Overlay(m, h + k, img), NoRet, 0, outPre)

Touches(o) == o.op \in {"set", "init", "getalias"}

(***************************************************************************)
(* The machine                                                             *)
(***************************************************************************)
CONSTANTS Buf            \* buffer identifiers
VARIABLES mem, hb, out, step
vars == <<mem, hb, out, step>>

TypeOK ==
  /\ \A b \in Buf : IsMem(mem[b]) /\ hb[b] \in 0..Len(mem[b])
  /\ IsMem(out) /\ Len(out) = 8

Fits(b, v) == hb[b] + HdrLen[v] <= Len(mem[b])

\* apply o to buffer b whose current content is m (header at offset h)
DoFrom(b, m, h, o) ==
  /\ h + HdrLen[o.view] <= Len(m)
  /\ \E r \in { Apply(m, h, o, Sentinel) } :      \* (singleton \E: evaluate Apply once)
       /\ mem'  = [mem EXCEPT ![b] = r.post]
       /\ hb'   = [hb EXCEPT ![b] = h]
       /\ out'  = r.out
       /\ step' = o @@ [buf |-> b, base |-> h, pre |-> m, post |-> r.post,
                         ret |-> r.ret, rc |-> r.rc, out |-> r.out]

Do(b, o) == DoFrom(b, mem[b], hb[b], o)

(***************************************************************************)
(* Properties of the machine (checked by TLC in the MC_* configurations).  *)
(***************************************************************************)
\* C02/T2 frame: a step changes no bit outside the field written / header initialised,
\* and never another buffer.  (`step'.pre` is the content the call started from.)
FrameOK ==
  [][ /\ \A c \in Buf : c # step'.buf => mem'[c] = mem[c]
      /\ LET b == step'.buf  h == step'.base  m0 == step'.pre IN
         /\ Len(mem'[b]) = Len(m0)
         /\ \A i \in 1..Len(m0) :
              mem'[b][i] # m0[i] =>
                 /\ Touches(step')
                 /\ (step'.op # "getalias" => (i > h /\ i <= h + HdrLen[step'.view]))
                 /\ step'.op = "set" =>
                      \E k \in 0..7 : LET p == 8*(i-1) + k - 8*h IN
                          p >= FStart(step'.view, step'.field)
                          /\ p < FStart(step'.view, step'.field) + FW(step'.view, step'.field)
    ]_<<mem, step>>

\* C02/T1 read-after-write: after a set, every path reads back the value modulo 2^w
ReadBack ==
  step.op = "set" =>
     GetSem(mem[step.buf], hb[step.buf], step.view, step.field)
        = Low(IF step.path = "legacy" THEN LegacyVal(step.view, step.val) ELSE step.val,
              FW(step.view, step.field))

\* C02: other fields of the same view keep their value across a set (disjointness in action)
OthersKept ==
  [][ step'.op = "set" =>
        \A n \in FieldNames(step'.view) \ {step'.field} :
           GetSem(mem'[step'.buf], step'.base, step'.view, n)
             = GetSem(step'.pre, step'.base, step'.view, n) ]_<<mem, step>>

\* C04/T5: after init the header is canonical, whatever it held; init is idempotent
InitCanonical ==
  (step.op = "init" /\ ~(step.path = "legacy" /\ step.view = "Cvf")) =>
     /\ SubBytes(mem[step.buf], hb[step.buf], HdrLen[step.view]) = CanonHdr(step.view)
     /\ InitSem(mem[step.buf], hb[step.buf], step.view) = mem[step.buf]
     /\ \A n \in FieldNames(step.view) :
          GetSem(mem[step.buf], hb[step.buf], step.view, n) =
            (IF \E i \in 1..Len(InitConst[step.view]) : InitConst[step.view][i].name = n
               THEN V64((CHOOSE c \in {InitConst[step.view][i] : i \in 1..Len(InitConst[step.view])} :
                            c.name = n).val)
               ELSE Zero64)

\* C01: reads never modify memory;  C11: rejected calls never modify anything
ReadOnlyOps ==
  [][ ~Touches(step') => mem'[step'.buf] = step'.pre ]_<<mem, step>>
=============================================================================
