------------------------------- MODULE GenImpl -------------------------------
(***************************************************************************)
(* Descriptor-shape sweep: every shape the by-descriptor API accepts       *)
(* (q in Qs, off in 0..31, w in 0..64) x images x values.                  *)
(*  - checks T7 (refinement of the bit semantics, both hosts) on the model *)
(*  - emits Get / Set transitions predicted for (MemHost, Branch): for     *)
(*    MemHost = Branch these are replayed through the raw Avtp_GetField /  *)
(*    Avtp_SetField with a caller-made table (C01/C02 "every descriptor"); *)
(*    for MemHost = "LE", Branch = "BE" through the crossed build (C14).   *)
(***************************************************************************)
EXTENDS GenericImpl, Json, TLC
CONSTANTS Qs, Offs, Ws, MemHost, Branch,
          BigQs        \* start quadlets far into a large PDU (the descriptor's quadlet index is an octet: 0..255), swept with a reduced shape set
VARIABLES d, img, st
\* (not periodic in 256 bytes: an access that lands 256 or 1024 bytes off must see different data)
Img(k, n) == Mat([i \in 1..n |-> IF k = 0 THEN 0 ELSE IF k = 1 THEN 255 ELSE (i * 53 + (i \div 64) * 7 + (i \div 256) * 29 + 17 * k) % 256])
AllFF == Fill(8, 255)
AltA  == Fill(8, 170)
Vals  == { AllFF, AltA, <<1, 35, 69, 103, 137, 171, 205, 239>> }
ArenaLen(q) == 2 + 4 * (IF q < 2 THEN 4 ELSE q + 3) + 3       \* 2 leading bytes, the quadlets the shape can reach, 3 trailing bytes
Init == /\ d \in { D(q, off, w) : q \in Qs, off \in Offs, w \in Ws }
                \cup { D(q, off, w) : q \in BigQs, off \in {0, 5, 31}, w \in {1, 31, 32, 33, 64} }
        /\ img \in { Img(k, ArenaLen(d.q)) : k \in (IF d.q < 2 THEN 0..3 ELSE {2, 3}) }
        /\ st = [op |-> "start"]
Next == /\ st.op = "start" /\ UNCHANGED <<d, img>>
        /\ \/ st' = [op |-> "get", q |-> d.q, off |-> d.off, w |-> d.w, val |-> Zero64, base |-> 2, pre |-> img, post |-> img,
                     ret |-> GetImpl(MemHost, Branch, img, 2, d)]
           \/ \E v \in Vals :
              st' = [op |-> "set", q |-> d.q, off |-> d.off, w |-> d.w, val |-> v, base |-> 2, pre |-> img,
                     post |-> SetImpl(MemHost, Branch, img, 2, d, v), ret |-> Zero64]
           \* read, write, read, write, read of one field inside ONE caller function (the calls have identical arguments apart from the
           \* value): every read returns what the bytes hold at that moment, not what an earlier read returned
           \/ LET v1 == <<1, 35, 69, 103, 137, 171, 205, 239>>  v2 == AltA
                   m1 == SetImpl(MemHost, Branch, img, 2, d, v1)  m2 == SetImpl(MemHost, Branch, m1, 2, d, v2) IN
              st' = [op |-> "gsg", q |-> d.q, off |-> d.off, w |-> d.w, val |-> v1, val2 |-> v2, base |-> 2, pre |-> img, post |-> m2,
                     r0 |-> GetImpl(MemHost, Branch, img, 2, d), r1 |-> GetImpl(MemHost, Branch, m1, 2, d), ret |-> GetImpl(MemHost, Branch, m2, 2, d)]
Spec == Init /\ [][Next]_<<d, img, st>>

\* T7: with the helper set of the host, the walk IS the bit semantics - on either host
T7 == \A host \in Hosts :
        /\ GetImpl(host, host, img, 2, d) = GetBits(img, 2, d)
        /\ \A v \in Vals : SetImpl(host, host, img, 2, d, v) = SetBits(img, 2, d, v)
\* hence both hosts produce the same wire bytes and read the same values
HostIndependent ==
   /\ GetImpl("LE", "LE", img, 2, d) = GetImpl("BE", "BE", img, 2, d)
   /\ \A v \in Vals : SetImpl("LE", "LE", img, 2, d, v) = SetImpl("BE", "BE", img, 2, d, v)
Emit == st.op = "start" \/ PrintT(ToJson(st))
=============================================================================
