-------------------------------- MODULE GenX --------------------------------
(***************************************************************************)
(* C14.  (a) theorem HostIndependence: for every operation enumerated      *)
(* here, the model built for a little-endian host and the model built for  *)
(* a big-endian host produce the same wire bytes / values, and both equal  *)
(* the reference semantics.  (b) transitions predicted for the crossed     *)
(* configuration (MemHost = "LE", Branch = "BE") are printed and replayed  *)
(* through the crossed build of the library.                               *)
(*   Scn: "fields" | "init" | "can" | "vss" | "strarr"                     *)
(***************************************************************************)
EXTENDS HostModel, Json, FiniteSets
CONSTANTS BigCounts,    \* element counts of large arrays (block sizes / 8-bit counters of elements and pairs), in the crossed build too
          Scn, XViews, MemHost, Branch
VARIABLES st, job
ASSUME Buf = {1}

PatByte(k, i) == IF k = 0 THEN 0 ELSE IF k = 1 THEN 255 ELSE (((i * i * 7 + 13 * i * k + 101 * k * k + 29) % 251) + ((i * k) % 5)) % 256
Pat(k, len) == Mat([i \in 1..len |-> PatByte(k, i)])
AllFF == Fill(8, 255)
V1 == <<1, 35, 69, 103, 137, 171, 205, 239>>
ValBytes(s, c, p) == Mat([i \in 1..(s * c) |-> IF p = 1 THEN 255 ELSE ((i - 1) * 37 + 1) % 256])
Types == (0..11) \cup (128..139)
Jobs ==
  CASE Scn = "fields" -> { [view |-> v, field |-> f, k |-> k, val |-> x] : v \in XViews, f \in UNION { FieldNames(w) : w \in XViews }, k \in {1, 5}, x \in {AllFF, V1} }
    [] Scn = "init"   -> { [view |-> v, k |-> k] : v \in XViews \cap InitViews, k \in {1, 5, 6} }
    [] Scn = "can"    -> { [kind |-> kd, len |-> l, id |-> id, fd |-> fd, k |-> k] : kd \in {"full", "brief"}, l \in {0, 1, 3, 8, 13, 64},
                             id \in { V64(291), <<0,0,0,0,31,255,255,255>>, <<0,0,0,0,128,0,1,35>> }, fd \in {0, 1}, k \in {1, 5} }
    [] Scn = "strarr" -> { [list |-> l] : l \in { << >>, << <<97>> >>, << <<97, 98, 0>>, << >>, <<99>> >>, << << >>, << >> >> } }
    [] Scn = "vss"    -> { [mode |-> md, dt |-> dt, c |-> c, p |-> p, k |-> k] : md \in {0, 1}, dt \in Types, c \in {0, 1, 3}, p \in {1, 2}, k \in {5} }
                         \cup { [mode |-> 0, dt |-> dt, c |-> c, p |-> 2, k |-> 5] : dt \in { t \in Types : IsVar(t) }, c \in BigCounts }

HdrWithX(a, mode, dt) == SetSem(SetSem(a, 2, "Vss", "addr_mode", V64(mode)), 2, "Vss", "vss_datatype", V64(dt))
vars2 == <<mem, hb, out, step, st, job>>
Init == /\ job \in Jobs /\ (Scn = "fields" => job.field \in FieldNames(job.view))
        /\ st = [op |-> "start"] /\ mem = << >> /\ hb = << >> /\ out = Sentinel /\ step = << >>

CanPayload(l) == Mat([i \in 1..l |-> (17 * i + 3) % 256])
VssPath(md) == IF md = 1 THEN <<222, 173, 190, 239>> ELSE <<86, 101, 0, 104, 46>>
VssVal(j) == IF IsVar(j.dt) THEN ValBytes(ElemSize(j.dt), j.c, j.p) ELSE ValBytes(ElemSize(j.dt), 1, j.p)

\* near-valid prior contents in the crossed build too: the write's own result with the two quadlets of a two-quadlet field
\* exchanged, or one of the field's quadlets byte-reversed (conversion short cuts compare the wrong halves / the wrong order)
KV == <<1, 35, 69, 103, 137, 171, 205, 239>>
SwapQ(m, b, q1, q2) == [i \in 1..Len(m) |-> IF i > b + 4*q1 /\ i <= b + 4*q1 + 4 THEN m[i + 4*(q2 - q1)]
                                           ELSE IF i > b + 4*q2 /\ i <= b + 4*q2 + 4 THEN m[i - 4*(q2 - q1)] ELSE m[i]] \o << >>
RevQ(m, b, q) == [i \in 1..Len(m) |-> IF i > b + 4*q /\ i <= b + 4*q + 4 THEN m[2*(b + 4*q) + 5 - i] ELSE m[i]] \o << >>
NearX(r, v, f) ==
  LET q1 == FStart(v, f) \div 32  q2 == (FStart(v, f) + FW(v, f) - 1) \div 32 IN
  { RevQ(r, 2, q) : q \in q1..q2 } \cup (IF q2 > q1 THEN { SwapQ(r, 2, q1, q2) } ELSE {})

XR(op, pre, post, ret, extra) == [op |-> op, base |-> 2, pre |-> pre, post |-> post, ret |-> ret] @@ extra
Next ==
  /\ st.op = "start" /\ UNCHANGED <<mem, hb, out, step, job>>
  /\ CASE Scn = "fields" ->
          LET a == Pat(job.k, 2 + HdrLen[job.view] + 3) IN
          \/ st' = XR("get", a, a, XGet(MemHost, Branch, a, 2, job.view, job.field), [view |-> job.view, field |-> job.field, val |-> Zero64])
          \/ st' = XR("set", a, XSet(MemHost, Branch, a, 2, job.view, job.field, job.val), Zero64, [view |-> job.view, field |-> job.field, val |-> job.val])
          \/ /\ job.val = V1 /\ job.k = 5
             /\ \E a2 \in NearX(XSet(MemHost, Branch, a, 2, job.view, job.field, KV), job.view, job.field) :
                  st' = XR("set", a2, XSet(MemHost, Branch, a2, 2, job.view, job.field, KV), Zero64, [view |-> job.view, field |-> job.field, val |-> KV])
       [] Scn = "init" ->
          LET a == Pat(job.k, 2 + HdrLen[job.view] + 3) IN
          st' = XR("init", a, XInit(MemHost, Branch, a, 2, job.view), Zero64, [view |-> job.view, field |-> "", val |-> Zero64])
       [] Scn = "can" ->
          LET a == Pat(job.k, 2 + MsgLen(job.kind, job.len) + 3) IN
          st' = XR("create", a, XBuild(MemHost, Branch, a, 2, job.kind, job.id, job.fd, CanPayload(job.len)), Zero64,
                  [kind |-> job.kind, id |-> job.id, fd |-> job.fd, len |-> job.len, payload |-> CanPayload(job.len)])
       [] Scn = "vss" ->
          LET path == VssPath(job.mode)  val == VssVal(job)
              total == 2 + VH + Len(PathWire(job.mode, path)) + Len(DataWire(job.dt, val)) + 3
              a0 == Pat(job.k, total)
              a  == XSet(MemHost, Branch, XSet(MemHost, Branch, a0, 2, "Vss", "addr_mode", V64(job.mode)), 2, "Vss", "vss_datatype", V64(job.dt))
              a1 == XPutPath(MemHost, Branch, a, 2, path)
              a2 == XPutData(MemHost, Branch, a1, 2, val)
              X(o, arg, nn) == [mode |-> job.mode, dt |-> job.dt, arg |-> arg, n |-> nn]
          IN \/ st' = XR("putpath", a, a1, Zero64, X("putpath", path, 0) @@ [len |-> 0, bytes |-> << >>])
             \/ st' = XR("putdata", a1, a2, Zero64, X("putdata", val, 0) @@ [len |-> 0, bytes |-> << >>])
             \/ st' = XR("getdata", a2, a2, Zero64, X("getdata", << >>, 1) @@ [len |-> Len(val), bytes |-> XGetData(MemHost, Branch, a2, 2)])
             \/ st' = XR("getpath", a2, a2, Zero64, X("getpath", << >>, 1) @@ [len |-> Len(path), bytes |-> XGetPath(MemHost, Branch, a2, 2)])
             \/ st' = XR("calcpath", a2, a2, XPathLen(MemHost, Branch, a2, 2), X("calcpath", << >>, 0) @@ [len |-> 0, bytes |-> << >>])
             \/ st' = XR("pad", a2, XPad(MemHost, Branch, a2, 2, total - 5), Zero64, X("pad", << >>, total - 5) @@ [len |-> 0, bytes |-> << >>])
       [] Scn = "strarr" ->
          st' = [op |-> "pack", list |-> job.list, blob |-> XPack(MemHost, Branch, job.list), count |-> Len(job.list), res |-> << >>, req |-> Len(job.list), withdest |-> 1]
Spec == Init /\ [][Next]_vars2

(***************************************************************************)
(* C14 on the model: LE-host build and BE-host build agree with each other *)
(* and with the reference semantics, for every job.                        *)
(***************************************************************************)
HostIndependence ==
  \A host \in Hosts :
    CASE Scn = "fields" ->
          LET a == Pat(job.k, 2 + HdrLen[job.view] + 3) IN
          /\ XGet(host, host, a, 2, job.view, job.field) = GetSem(a, 2, job.view, job.field)
          /\ XSet(host, host, a, 2, job.view, job.field, job.val) = SetSem(a, 2, job.view, job.field, job.val)
      [] Scn = "init" ->
          LET a == Pat(job.k, 2 + HdrLen[job.view] + 3) IN XInit(host, host, a, 2, job.view) = InitSem(a, 2, job.view)
      [] Scn = "can" ->
          LET a == Pat(job.k, 2 + MsgLen(job.kind, job.len) + 3) IN
          XBuild(host, host, a, 2, job.kind, job.id, job.fd, CanPayload(job.len)) = Build(a, 2, job.kind, job.id, job.fd, CanPayload(job.len))
      [] Scn = "vss" ->
          LET path == VssPath(job.mode)  val == VssVal(job)
              total == 2 + VH + Len(PathWire(job.mode, path)) + Len(DataWire(job.dt, val)) + 3
              a == HdrWithX(Pat(job.k, total), job.mode, job.dt)
          IN /\ XPutData(host, host, XPutPath(host, host, a, 2, path), 2, val) = PutData(PutPath(a, 2, path), 2, val)
             /\ XGetData(host, host, PutData(PutPath(a, 2, path), 2, val), 2) = val
             /\ XGetPath(host, host, PutPath(a, 2, path), 2) = path
             /\ XPathLen(host, host, PutPath(a, 2, path), 2) = Len(PathWire(job.mode, path))
             /\ XPad(host, host, a, 2, total - 5) = PadMsg(a, 2, total - 5)
      [] Scn = "strarr" -> XPack(host, host, job.list) = Pack(job.list)
Emit == st.op = "start" \/ PrintT(ToJson(st))
=============================================================================
