----------------------------- MODULE GenListener -----------------------------
(***************************************************************************)
(* Scenario generation for StreamListener: behaviours over an alphabet of  *)
(* datagrams (well-formed ones with expected / skipped / wrapped sequence  *)
(* numbers; one failing check each, before and after the sequence counter  *)
(* is touched; short and over-long datagrams) interleaved with timer       *)
(* expirations.  Exhaustive to Depth (BFS) or random (-simulate, Rand).    *)
(* Each complete behaviour is printed once (Finish); it is then run        *)
(* through the real listener and the recorded run is validated by          *)
(* ListenerQueueTrace.                                                     *)
(***************************************************************************)
EXTENDS StreamListener, Json, TLC
CONSTANTS Depth, Rand,
          NowNsec      \* nanosecond part of the (standing) clock of the run; the clock is a multiple of 2^32 ns, so a packet's
                       \* avtp_timestamp is its distance to the presentation time: timestamps aim at the carry into the seconds
VARIABLES n, hist, done
gvars == <<svars, n, hist, done, mem, hb, out, step>>
ASSUME Buf = {1}

Set2(m, v, f, x) == SetSem(m, 0, v, f, V64(x))
RECURSIVE SetAll(_, _, _)
SetAll(m, v, fs) == IF fs = << >> THEN m ELSE SetAll(Set2(m, v, fs[1][1], fs[1][2]), v, Tail(fs))
Pay(len, salt) == Mat([i \in 1..len |-> ((i * 31 + salt * 17) % 251) + 1])

TsFamily == << 0, 1, 1000000000 - NowNsec - 1, 1000000000 - NowNsec, 1000000000 - NowNsec + 1, 999999999 >>
TsOf(salt) == TsFamily[(salt % 6) + 1]
AafPkt(seq, salt) ==
  SetAll(SetSem(InitSem(Fill(24, 0), 0, "Pcm"), 0, "Pcm", "stream_id", StreamIdL), "Pcm",
         << <<"tv", 1>>, <<"sp", 0>>, <<"sequence_num", seq>>, <<"format", 4>>, <<"nsr", 5>>, <<"channels_per_frame", 2>>,
            <<"bit_depth", 16>>, <<"stream_data_length", 4>>, <<"avtp_timestamp", TsOf(salt)>> >>) \o Pay(4, salt)
CvfPkt(seq, len, salt) ==
  SetAll(SetSem(InitSem(Fill(24, 0), 0, "Cvf"), 0, "Cvf", "stream_id", StreamIdL), "Cvf",
         << <<"tv", 1>>, <<"format_subtype", 1>>, <<"sequence_num", seq>>, <<"stream_data_length", len + 4>>, <<"ptv", 1>>, <<"avtp_timestamp", TsOf(salt)>> >>)
  \o <<0, 0, 0, 9>> \o Pay(len, salt)

\* one deviation from a well-formed packet
Variants ==
  IF Kind = "aaf"
  THEN { <<"good", "", 0>>, <<"set", "tv", 0>>, <<"set", "sp", 1>>, <<"set", "subtype", 3>>, <<"set", "version", 1>>, <<"sid", "", 0>>,
         <<"set", "format", 2>>, <<"set", "nsr", 1>>, <<"set", "channels_per_frame", 1>>, <<"set", "bit_depth", 24>>,
         <<"set", "stream_data_length", 8>>, <<"cut", "", 27>>, <<"extra", "", 3>> }
  ELSE { <<"good", "", 0>>, <<"set", "tv", 0>>, <<"set", "subtype", 2>>, <<"set", "version", 1>>, <<"sid", "", 0>>,
         <<"set", "format", 0>>, <<"set", "format_subtype", 0>>, <<"set", "stream_data_length", 3>>,
         <<"set", "stream_data_length", 200>>, <<"cut", "", 27>>, <<"extra", "", 5>>, <<"long", "", 1400>> }
Mk(var, seq, salt) ==
  LET base == IF Kind = "aaf" THEN AafPkt(seq, salt) ELSE CvfPkt(seq, IF var[1] = "long" THEN 1400 ELSE 1 + (salt % 7), salt) IN
  CASE var[1] = "set"   -> Set2(base, View, var[2], var[3])
    [] var[1] = "sid"   -> SetSem(base, 0, View, "stream_id", <<170, 187, 204, 221, 238, 255, 0, 2>>)
    [] var[1] = "cut"   -> SubSeq(base, 1, var[3])
    [] var[1] = "extra" -> base \o Pay(var[3], 99)
    [] OTHER            -> base
Seqs == { expected, (expected + 1) % 256, 255, 7 }
Alphabet == { Mk(var, s, Len(hist)) : var \in Variants, s \in Seqs }
Pick(S) == IF Rand THEN { RandomElement(S) } ELSE S

GInit == Init /\ n = 0 /\ hist = << >> /\ done = FALSE /\ mem = << >> /\ hb = << >> /\ out = Sentinel /\ step = << >>
Step ==
  /\ n < Depth /\ n' = n + 1 /\ UNCHANGED <<done, mem, hb, out, step>>
  /\ \/ \E p \in Pick(Alphabet) : Packet(p) /\ hist' = Append(hist, [a |-> "packet", bytes |-> p])
     \/ Timeout /\ hist' = Append(hist, [a |-> "timeout", bytes |-> << >>])
Finish == n = Depth /\ ~done /\ done' = TRUE /\ UNCHANGED <<svars, n, hist, mem, hb, out, step>>
GNext == Step \/ Finish
GSpec == GInit /\ [][GNext]_gvars

EmitScn == ~done \/ PrintT(ToJson([kind |-> Kind, hist |-> hist]))
=============================================================================
