--------------------------- MODULE QuadletRecord ---------------------------
(* Unbounded check (Apalache): one 32-bit quadlet holding the ACF-CAN flag quadlet
   acf_msg_type(7) acf_msg_length(9) pad(2) mtv(1) rtr(1) eff(1) brs(1) fdf(1) esi(1) rsv(3) can_bus_id(5)
   as an integer; Set is mask-and-shift arithmetic, the record of field values is the abstract state.
   Inductive invariant: the word always decodes to the record (RecordView) - for ALL words and ALL values. *)
EXTENDS Integers
VARIABLES
  \* @type: Int;
  word,
  \* @type: Str -> Int;
  rec
Names == {"acf_msg_type", "acf_msg_length", "pad", "mtv", "rtr", "eff", "brs", "fdf", "esi", "rsv", "can_bus_id"}
\* shift (from the LSB) and width of each field
Shift(n) == CASE n = "acf_msg_type" -> 25 [] n = "acf_msg_length" -> 16 [] n = "pad" -> 14 [] n = "mtv" -> 13 [] n = "rtr" -> 12
              [] n = "eff" -> 11 [] n = "brs" -> 10 [] n = "fdf" -> 9 [] n = "esi" -> 8 [] n = "rsv" -> 5 [] OTHER -> 0
Width(n) == CASE n = "acf_msg_type" -> 7 [] n = "acf_msg_length" -> 9 [] n = "pad" -> 2 [] n = "rsv" -> 3 [] n = "can_bus_id" -> 5 [] OTHER -> 1
\* 2^Shift(n) and 2^Width(n) as literals (Apalache's translation of ^ with a variable exponent is not integer typed)
P(n) == CASE n = "acf_msg_type" -> 33554432 [] n = "acf_msg_length" -> 65536 [] n = "pad" -> 16384 [] n = "mtv" -> 8192 [] n = "rtr" -> 4096
          [] n = "eff" -> 2048 [] n = "brs" -> 1024 [] n = "fdf" -> 512 [] n = "esi" -> 256 [] n = "rsv" -> 32 [] OTHER -> 1
M(n) == CASE n = "acf_msg_type" -> 128 [] n = "acf_msg_length" -> 512 [] n = "pad" -> 4 [] n = "rsv" -> 8 [] n = "can_bus_id" -> 32 [] OTHER -> 2
Get(w, n) == (w \div P(n)) % M(n)
Set(w, n, x) == w - Get(w, n) * P(n) + (x % M(n)) * P(n)
Init == word \in 0..4294967295 /\ rec = [n \in Names |-> Get(word, n)]
Next == \E n \in Names : \E x \in 0..65536 :
          /\ word' = Set(word, n, x)
          /\ rec' = [rec EXCEPT ![n] = x % M(n)]
RecordView == /\ word >= 0 /\ word < 4294967296 /\ \A n \in Names : Get(word, n) = rec[n]
\* "initial" states of the inductive step: any well-typed state satisfying the invariant
IndInit == /\ word \in 0..4294967295 /\ rec \in [Names -> 0..65535] /\ RecordView
=============================================================================
