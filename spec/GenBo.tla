-------------------------------- MODULE GenBo --------------------------------
(***************************************************************************)
(* Enumeration for C13: every 16-bit value (exhaustive), and for 32/64 bit *)
(* every (byte position x byte value) on three backgrounds plus walking    *)
(* bits, through every helper of both compile-time branches.  Each         *)
(* transition records the helper's result value and the memory image the   *)
(* result object has on a host with memory order MemHost (this sandbox:    *)
(* "LE"; for the forced big-endian branch that is the crossed case).       *)
(***************************************************************************)
EXTENDS ByteOrder, Json, TLC
CONSTANTS Size, Branch, MemHost, Full16
VARIABLES x, st
Fns == Helpers \cup {"Bswap"}

Bg(k, n) == Mat([i \in 1..n |-> IF k = 0 THEN 0 ELSE IF k = 1 THEN 255 ELSE (i * 53 + 17) % 256])
\* values with internal structure a composed implementation could special-case: the two halves equal (x = h.h), mirrored
\* (x = h.Rev(h), a byte palindrome), one 16-bit unit repeated
Part(n) == { [Bg(k, n) EXCEPT ![p] = b] : k \in 0..2, p \in 1..n, b \in {0, 1, 18, 127, 128, 255} }
Structured ==
  IF Size < 4 THEN {}
  ELSE { h \o h : h \in Part(Size \div 2) } \cup { h \o Rev(h) : h \in Part(Size \div 2) }
       \cup (IF Size = 8 THEN { u \o u \o u \o u : u \in Part(2) } \cup { h \o Rev(h) \o h \o Rev(h) : h \in Part(2) } ELSE {})
Vals ==
  IF Size = 2 /\ Full16 THEN { <<a, b>> : a \in 0..255, b \in 0..255 }
  ELSE { [Bg(k, Size) EXCEPT ![p] = b] : k \in 0..2, p \in 1..Size, b \in 0..255 }
       \cup { Mat([i \in 1..Size |-> IF i = (t \div 8) + 1 THEN P2[8 - (t % 8)] ELSE 0]) : t \in 0..(8 * Size - 1) }
       \cup Structured

Init == x \in Vals /\ st = [fn |-> "start"]
Next == \E fn \in Fns :
          /\ st.fn = "start"
          /\ st' = [fn |-> fn, size |-> Size, branch |-> Branch, x |-> x,
                    val |-> Helper(Branch, fn, x), img |-> Store(MemHost, Helper(Branch, fn, x))]
          /\ UNCHANGED x
Spec == Init /\ [][Next]_<<x, st>>

\* T11 on the model (for the correctly selected set) and the mirror property
T11 == /\ BigEndianImage(Branch, x) /\ LittleEndianImage(Branch, x) /\ Inverses(Branch, x) /\ Mirror(x)
       /\ (st.fn = "CpuToBe" /\ Branch = MemHost => st.img = x)
       /\ (st.fn = "CpuToLe" /\ Branch = MemHost => st.img = Rev(x))
Emit == st.fn = "start" \/ PrintT(ToJson(st))
=============================================================================
