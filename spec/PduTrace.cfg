SPECIFICATION TSpec
CONSTANT Buf = {0,1,2,3,4,5,6,7}
INVARIANT ReadBack
INVARIANT InitCanonical
PROPERTY FrameOK
PROPERTY ReadOnlyOps
PROPERTY OthersKept
POSTCONDITION TraceAccepted
CHECK_DEADLOCK FALSE
