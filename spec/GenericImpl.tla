----------------------------- MODULE GenericImpl -----------------------------
(***************************************************************************)
(* Implementation-shaped model of the by-descriptor reader / writer        *)
(* (src/avtp/Utils.c): a field described by (quadlet q, bit offset off,    *)
(* width w) is processed quadlet by quadlet - load the quadlet as a host   *)
(* object, convert it with the big-endian-to-host helper of the selected   *)
(* helper set, mask / shift, convert back, store.  Parameters:             *)
(*   host   : memory order of the machine ("LE" | "BE")                    *)
(*   branch : helper set compiled in     ("LE" | "BE")                     *)
(* Theorem T7 (checked by TLC): for branch = host the walk equals the      *)
(* bit-level semantics Extract / Deposit, for BOTH hosts - the wire bytes  *)
(* do not depend on host endianness (C14).  The crossed case host # branch *)
(* (executable in this sandbox: big-endian helper set on little-endian     *)
(* memory) is what pins this model to the code.                            *)
(* Every quadlet access is recorded for T8 / C03.                          *)
(***************************************************************************)
EXTENDS ByteOrder

Min(a, b) == IF a < b THEN a ELSE b
D(q, off, w) == [q |-> q, off |-> off, w |-> w]

\* the quadlet with index qid of the header at offset h, as the value `quadletHostOrder` of the C code
LoadQ(host, branch, m, h, qid) == Helper(branch, "BeToCpu", Load(host, SubBytes(m, h + 4 * qid, 4)))
StoreQ(host, branch, m, h, qid, v) == Overlay(m, h + 4 * qid, Store(host, Helper(branch, "CpuToBe", v)))

QBits(d, processed) == IF processed = 0 THEN Min(32 - d.off, d.w) ELSE Min(32, d.w - processed)
QPos(d, processed)  == IF processed = 0 THEN d.off ELSE 0        \* first bit (from the MSB) of the part inside the quadlet

RECURSIVE GetWalk(_, _, _, _, _, _, _, _)
GetWalk(host, branch, m, h, d, k, processed, acc) ==
  IF processed >= d.w THEN acc
  ELSE LET qb   == QBits(d, processed)
           qv   == LoadQ(host, branch, m, h, d.q + k)
           part == Extract(qv, QPos(d, processed), qb)
       IN  GetWalk(host, branch, m, h, d, k + 1, processed + qb, Deposit(acc, 64 - d.w + processed, qb, part))
GetImpl(host, branch, m, h, d) == GetWalk(host, branch, m, h, d, 0, 0, Zero64)

RECURSIVE SetWalk(_, _, _, _, _, _, _, _)
SetWalk(host, branch, m, h, d, v, k, processed) ==
  IF processed >= d.w THEN m
  ELSE LET qb   == QBits(d, processed)
           qv   == LoadQ(host, branch, m, h, d.q + k)
           part == Extract(v, 64 - d.w + processed, qb)
           m2   == StoreQ(host, branch, m, h, d.q + k, Deposit(qv, QPos(d, processed), qb, part))
       IN  SetWalk(host, branch, m2, h, d, v, k + 1, processed + qb)
SetImpl(host, branch, m, h, d, v) == SetWalk(host, branch, m, h, d, v, 0, 0)

\* quadlets accessed by the walk (relative to the header start)
QuadsTouched(d) == IF d.w = 0 THEN {} ELSE d.q .. (d.q + (d.off + d.w - 1) \div 32)

\* bit-level semantics of a descriptor (what Generic = PduStore uses for named fields)
GetBits(m, h, d)    == Extract(m, 8 * h + 32 * d.q + d.off, d.w)
SetBits(m, h, d, v) == Deposit(m, 8 * h + 32 * d.q + d.off, d.w, v)
=============================================================================
