"""Checks built on the PduStore specification (C01-C05, C11, C12, C17 and the C03 facts).

Two directions, both against an executor built from /repo's working tree:
  replay  : TLC enumerates transitions of PduStore (GenPdu.tla) and prints them; each one is
            executed through the real API and every observed byte / result is compared with
            what TLC computed.
  traces  : a seeded driver executes random operations through the real API, logs them, and
            TLC validates the log against PduTrace.tla.
"""
import os, json, random, subprocess, concurrent.futures as cf
from infra import *

ALL_VIEWS = ["CommonHeader", "Udp", "Aaf", "Pcm", "Cvf", "H264", "Mjpeg", "Jpeg2000", "Crf", "Rvf", "Tscf", "Ntscf",
             "AcfCommon", "Can", "CanBrief", "Lin", "FlexRay", "Most", "Gpc", "Sensor", "SensorBrief", "Vss", "VssBrief"]
LEGACY_VIEWS = ["CommonHeader", "Pcm", "Crf", "Cvf", "Rvf"]
EINVAL = 22


class Bind:
    def __init__(self, desc):
        self.desc = desc
        self.views = {v["view"]: v for v in desc["views"]}
        self.fidx = {v["view"]: {f["name"]: i for i, f in enumerate(v["fields"])} for v in desc["views"]}

    def has_path(self, view, field, op, path):
        v = self.views.get(view)
        if not v: return False
        if op in ("init", "nullinit"):
            return bool(v["linit"]) if path == "legacy" else bool(v["init"])
        if op == "payload":
            return bool(v["payload"])
        kind = "get" if op in ("get", "nullget", "badget", "nullout", "getalias") else "set"
        if path == "generic": return bool(v["g" + kind])
        if path == "legacy": return bool(v["l" + kind])
        if path == "dedicated":
            i = self.fidx[view].get(field)
            return i is not None and bool(v["fields"][i][kind])
        return False

    def resolve_id(self, view, idc):
        v = self.views[view]
        mx = v["field_max"]
        if idc == "max": return mx
        if idc == "max+1": return mx + 1
        if idc == "2^31-1": return 2 ** 31 - 1
        if idc == "2^31": return 2 ** 31
        if idc == "2^32-1": return 2 ** 32 - 1
        if idc == "2^32-256": return 2 ** 32 - 256
        if idc.startswith("wrap"):
            sc, _, rest = idc[4:].partition("."); j, _, i = rest.partition("+")
            return -((-int(j) * 2 ** 32) // int(sc)) + int(i)
        if idc.startswith("256+"):
            i = self.fidx[view].get(idc[4:])
            return None if i is None else 256 + v["fields"][i]["id"]
        return int(idc)


def gen_cfg(scn, views, nrand, walk, depth, props=(), invs=()):
    t = "SPECIFICATION GSpec\nCONSTANTS\n  Buf = {1}\n  Scn = \"%s\"\n  GViews = {%s}\n  NRand = %d\n  Walk = %s\n  Depth = %d\n" % (
        scn, ", ".join('"%s"' % v for v in views), nrand, "TRUE" if walk else "FALSE", depth)
    t += "CONSTRAINT Emit\nCHECK_DEADLOCK FALSE\n"
    for i in invs: t += "INVARIANT %s\n" % i
    for p in props: t += "PROPERTY %s\n" % p
    return t


def vec_cmd(vec, bind, place, off):
    """Executor command for one TLC transition, or None if the entry point does not exist in this tree."""
    view, op, path, field = vec["view"], vec["op"], vec["path"], vec["field"]
    if not bind.has_path(view, field, op, path):
        return None
    fidx = bind.fidx[view].get(field, -1) if field else -1
    if field and fidx < 0 and op not in ("badget", "badset", "init", "nullinit"):
        return None
    idv = 0
    if op in ("badget", "badset"):
        idv = bind.resolve_id(view, vec["id"])
        if idv is None: return None
    return "X %s %s %s %d %d %s %d %s %d %s" % (view, op, path, fidx, idv, hexs(vec["val"]), vec["base"], place, off, hexs(vec["pre"]))


def compare(vec, line, v, pid, what, extra_key=""):
    """Compare one observation line with the transition TLC computed.  Returns True if it conformed."""
    t = line.split()
    key_base = "view=%s op=%s path=%s field=%s%s" % (vec["view"], vec["op"], vec["path"], vec.get("field") or vec.get("id") or "-", extra_key)
    if len(t) < 7 or t[0] != "R":
        raise Infra("bad executor answer: " + line[:200])
    status, ret, rc, out, post, canary = t[1], t[2], int(t[3]), t[4], t[5], t[6]
    def rep(kind, desc):
        v.violation("%s kind=%s" % (key_base, kind), desc,
                    {"vector": vec, "observed": {"status": status, "ret": ret, "rc": rc, "out": out, "post": post, "canary": canary}, "where": what})
        return False
    if status == "skipped":
        return True                       # the executor's watchdog budget was used up: earlier commands carry the report
    if status.startswith("fault") or status.startswith("crash"):
        return rep("fault", "%s: the call faulted (%s: signal:offset relative to the buffer) - expected bytes %s" % (what, status, hexs(vec["post"])))
    if status != "ok":
        raise Infra("executor status %s for %s" % (status, key_base))
    ok = True
    if post != hexs(vec["post"]):
        ok = rep("bytes", "%s: buffer after the call is %s, specification says %s (before: %s)" % (what, post, hexs(vec["post"]), hexs(vec["pre"])))
    if vec["path"] == "legacy":
        if rc != -vec["rc"]:
            ok = rep("rc", "%s: return code %d, specification says %d" % (what, rc, -vec["rc"]))
        if out != hexs(vec["out"]):
            ok = rep("out", "%s: result object holds %s, specification says %s" % (what, out, hexs(vec["out"])))
    elif vec["op"] in ("get", "nullget", "badget", "payload"):
        if ret != hexs(vec["ret"]):
            ok = rep("ret", "%s: returned %s, specification says %s (buffer %s)" % (what, ret, hexs(vec["ret"]), hexs(vec["pre"])))
    if canary == "2":
        ok = rep("errno", "%s: the call changed errno (the stale value it found there is not its to touch, and the specification has no such output)" % what)
    elif canary == "3":
        ok = rep("ambient", "%s: the call consulted ambient process state (environment, clock, random generator, terminal or locale)" % what)
    elif canary != "0":
        ok = rep("canary", "%s: memory outside the buffer was modified" % what)
    return ok


def placements_for(vec, tier, rnd):
    """Placements to run a vector on: exact arenas against an inaccessible page (and read-only for
    non-writing ops), slack arenas at a varying address offset."""
    exact = vec["base"] == 0
    writes = vec["op"] in ("set", "init", "getalias")
    pl = []
    if exact:
        pl.append(("E", 0))
        if not writes: pl.append(("R", 0))
        pl.append(("S", 0))
        # at, across and up to an address that is a multiple of 2^32
        L = len(vec["pre"])
        for off in sorted(set((0, 4, L - 4 if L > 4 else L, L))): pl.append(("G", off))
    else:
        pl.append(("S", rnd.randrange(16)))
        pl.append(("E", 0))
    return pl


def published(vec, bind):
    """C03: an exact-extent buffer has the *published* header length of the tree under test.
    If that is shorter than the specification's header the vector is cut (an access beyond it then
    faults against the guard page); if longer, patterned bytes are appended (they must survive)."""
    if vec["base"] != 0: return vec
    pub = bind.views[vec["view"]]["header_len"]
    n = len(vec["pre"])
    if pub == n or pub <= 0: return vec
    w = dict(vec)
    if pub < n:
        w["pre"], w["post"] = vec["pre"][:pub], vec["post"][:pub]
    else:
        ext = [(0x6B + 5 * i) & 255 for i in range(pub - n)]
        w["pre"], w["post"] = vec["pre"] + ext, vec["post"] + ext
    return w


def replay(v, ex, bind, vectors, pid, tier, rnd, readback=False, publen=False, places=None, tag=""):
    """Execute TLC transitions through the real API and compare.  Returns stats."""
    cmds, meta = [], []
    skipped = 0
    if publen:
        vectors = [published(x, bind) for x in vectors]
    for vec in vectors:
        pls = places if places is not None else placements_for(vec, tier, rnd)
        for place, off in pls:
            c = vec_cmd(vec, bind, place, off)
            if c is None:
                skipped += 1
                break
            cmds.append(c); meta.append((vec, "%splacement %s offset %d" % (tag, place, off), None))
        if readback and vec["op"] == "set" and vec_cmd(vec, bind, "S", 0) is not None:
            # set on a persistent buffer, then read the field back through every reader
            cmds.append("N 0 %d %s" % (rnd.randrange(8), hexs(vec["pre"]))); meta.append((None, None, None))
            fidx = bind.fidx[vec["view"]][vec["field"]]
            cmds.append("D 0 %s set %s %d 0 %s %d" % (vec["view"], vec["path"], fidx, hexs(vec["val"]), vec["base"]))
            meta.append((vec, "persistent buffer", None))
            for gp in ("generic", "dedicated", "legacy"):
                if bind.has_path(vec["view"], vec["field"], "get", gp):
                    cmds.append("D 0 %s get %s %d 0 0000000000000000 %d" % (vec["view"], gp, fidx, vec["base"]))
                    g = dict(vec); g.update(op="get", path=gp, pre=vec["post"], ret=vec["rb"], rc=0,
                                            out=vec["rb"] if gp == "legacy" else vec["out"])
                    meta.append((g, "read-back after %s set" % vec["path"], " after=set/" + vec["path"]))
    outs = ex.run_robust(cmds)
    if len(outs) != len(cmds):
        raise Infra("executor answered %d lines for %d commands (exit %s): %s" % (len(outs), len(cmds), ex.returncode, ex.stderr[-800:]))
    bad = 0
    for (vec, what, xk), line in zip(meta, outs):
        if vec is None: continue
        if not compare(vec, line, v, pid, what, xk or ""):
            bad += 1
    return {"executed": len(cmds), "skipped_unbound": skipped, "mismatches": bad}


# ------------------------------------------------------------------ trace direction
def rand_val(rnd, w):
    k = rnd.randrange(8)
    if k == 0: return rnd.getrandbits(64)
    if k == 1: return rnd.getrandbits(w) if w else 0
    if k == 2: return (1 << w) - 1
    if k == 3: return (1 << w) | rnd.getrandbits(w)            # one past the field
    if k == 4: return (rnd.getrandbits(64 - w) << w) | rnd.getrandbits(w) if w < 64 else rnd.getrandbits(64)
    if k == 5: return 1 << rnd.randrange(64)
    if k == 6: return 0xFFFFFFFFFFFFFFFF
    return rnd.getrandbits(64) & rnd.getrandbits(64)

def rand_bytes(rnd, n):
    k = rnd.randrange(5)
    if k == 0: return [rnd.randrange(256) for _ in range(n)]
    if k == 1: return [rnd.choice((0, 255)) for _ in range(n)]
    if k == 2: return [0xFF] * n
    if k == 3:
        b = [0] * n
        for _ in range(rnd.randrange(1, 4)):
            if n: b[rnd.randrange(n)] = rnd.randrange(256)
        return b
    return [rnd.randrange(256) if rnd.random() < 0.5 else 0 for _ in range(n)]


def layout_from_tlc(wd):
    """The layout as TLC sees it (field names and widths), printed by MC_Wire1722."""
    res = run_tlc("MC_Wire1722", "INIT Init\nNEXT Next\n", wd, workers=1, timeout=120)
    return res


FIELD_W = None
def field_widths(wd):
    """{view: {field: width}} obtained from the specification (GenLayout prints it)."""
    global FIELD_W
    if FIELD_W is None:
        res = run_tlc("GenLayout", "INIT Init\nNEXT Next\nCHECK_DEADLOCK FALSE\n", wd, workers=1, timeout=120)
        if not res.emitted:
            raise Infra("GenLayout printed nothing")
        FIELD_W = res.emitted[0]
    return FIELD_W


def drive_independent(rnd, bind, layout, n, views, ops=("get", "set", "init"), bad_share=0.0):
    """n independent random calls: returns (cmds, events) - events lack the observed part."""
    cmds, evs = [], []
    while len(cmds) < n:
        view = rnd.choice(views)
        L = layout["hdrlen"][view]
        fields = list(layout["fields"][view].keys())
        lead, trail = rnd.choice((0, 0, 1, 2, 3, 5, 7)), rnd.choice((0, 0, 1, 4, 6, 9))
        pre = rand_bytes(rnd, lead) + rand_bytes(rnd, L) + rand_bytes(rnd, trail)
        op = rnd.choice(ops)
        field, path, val, idc = "", "", 0, ""
        if op in ("get", "set"):
            field = rnd.choice(fields)
            paths = [p for p in ("generic", "dedicated", "legacy") if bind.has_path(view, field, op, p)]
            if not paths: continue
            path = rnd.choice(paths)
            if op == "set":
                val = rand_val(rnd, layout["fields"][view][field])
        elif op == "init":
            paths = [p for p in ("current", "legacy") if bind.has_path(view, "", "init", p)]
            if not paths: continue
            path = rnd.choice(paths)
            if path == "legacy" and view == "Cvf": val = rnd.randrange(256)
        place = rnd.choice(("E", "S", "S"))
        if op == "get" and rnd.random() < 0.3: place = "R"
        off = rnd.randrange(16)
        ev = {"e": "op", "buf": 0, "base": lead, "op": op, "view": view, "field": field, "path": path,
              "val": v64(val), "id": idc, "pre": pre}
        c = vec_cmd(ev, bind, place, off)
        if c is None: continue
        cmds.append(c); evs.append(ev)
    return cmds, evs


def finish_events(evs, outs, v, pid):
    """Attach observations to events.  Faults / canary damage have no counterpart in the
    specification: they are reported directly."""
    done = []
    for ev, line in zip(evs, outs):
        t = line.split()
        if t[0] != "R": raise Infra("bad executor answer " + line[:100])
        status, ret, rc, out, post, canary = t[1], t[2], int(t[3]), t[4], t[5], t[6]
        key = "view=%s op=%s path=%s field=%s" % (ev["view"], ev["op"], ev["path"], ev["field"] or ev["id"] or "-")
        if status == "skipped": continue
        if status.startswith("fault") or status.startswith("crash"):
            v.violation(key + " kind=fault", "random call faulted (%s)" % status, {"event": ev, "status": status}); continue
        if status != "ok": raise Infra("executor status " + status)
        if canary != "0":
            v.violation(key + " kind=canary", "random call modified memory outside its buffer", {"event": ev}); continue
        e = dict(ev); e.update(post=unhexs(post), ret=unhexs(ret), rc=-rc, out=unhexs(out))
        done.append(e)
    return done


TRACE_CFG = open(os.path.join(SPEC, "PduTrace.cfg")).read() if os.path.exists(os.path.join(SPEC, "PduTrace.cfg")) else ""

def validate_events(v, wd, shards, pid, name="trace", module="PduTrace", cfg=None, keyfn=None, independent=True, resume=None, max_resume=12):
    """Validate event lists (one per shard) with TLC in parallel.  A rejected trace is located
    (first event TLC could not match) and reported."""
    cfg = cfg or TRACE_CFG
    paths = []
    for i, evs in enumerate(shards):
        p = os.path.join(wd, "%s_%s_%d.ndjson" % (pid, name, i))
        with open(p, "w") as f:
            for e in evs: f.write(json.dumps(e, separators=(",", ":")) + "\n")
        paths.append(p)
    def key_of(ev, evs=None, idx=None):
        if keyfn:
            try: return keyfn(ev, evs, idx)
            except TypeError: return keyfn(ev)
        return "view=%s op=%s path=%s field=%s kind=trace" % (ev.get("view"), ev.get("op"), ev.get("path"), ev.get("field") or ev.get("id") or "-")
    def one(i):
        """validate shard i; after a rejection, report the event TLC could not match and go on with the
        rest of the trace (the remainder must be examined too).  Returns (accepted?, results, rejected events)."""
        evs = shards[i]
        if not evs: return None
        results, rejected = [], []
        path = paths[i]
        start = 0
        for attempt in range(max_resume):
            ok, res = validate_trace(module, cfg, path, wd)
            results.append(res)
            if ok:
                return (not rejected, results, rejected)
            consumed = max(res.depth - 1, 0)
            txt = res.violation or ""
            if "is violated" in txt and "TraceAccepted" not in txt:
                consumed = max(res.depth - 2, 0)      # an invariant failed in the state after the last matched event
            idx = min(start + consumed, len(evs) - 1)
            rejected.append((idx, evs[idx], txt[-1200:], key_of(evs[idx], evs, idx)))
            if resume is not None:
                nxt = resume(evs, idx)
                if nxt is None or nxt >= len(evs): return (False, results, rejected)
                start = nxt
            elif not independent or idx + 1 >= len(evs):
                return (False, results, rejected)
            else:
                start = idx + 1
            path = os.path.join(wd, "%s_%s_%d_r%d.ndjson" % (pid, name, i, attempt))
            with open(path, "w") as f:
                for e in evs[start:]: f.write(json.dumps(e, separators=(",", ":")) + "\n")
        return (False, results, rejected)
    with cf.ThreadPoolExecutor(max_workers=min(len(shards), NCPU)) as pool:
        results = list(pool.map(one, range(len(shards))))
    accepted = 0
    for i, r in enumerate(results):
        if r is None: continue
        ok, ress, rejected = r
        for j, res in enumerate(ress):
            v.add_tlc("%s[%d]%s" % (name, i, "" if j == 0 else ".%d" % j), res)
        if ok: accepted += 1
        for idx, ev, txt, k_ in rejected:
            v.violation(k_, "recorded call is not a behaviour of the specification (event %d of %s shard %d): %s" % (idx + 1, name, i, json.dumps(ev)[:600]),
                        {"trace_event": ev, "index": idx, "tlc": txt})
    v.cov["traces_validated_against_impl"] += accepted
    return accepted


def negative_control(v, wd, evs, pid):
    """Liveness of the checker: corrupt one recorded byte - the trace specification must reject it."""
    cand = [i for i, e in enumerate(evs) if e.get("e") == "op" and e.get("post")]
    if not cand:
        raise Infra("negative control: no event to corrupt")
    i = cand[len(cand) // 2]
    bad = [dict(e) for e in evs[: i + 1]]
    post = list(bad[i]["post"]); post[len(post) // 2] ^= 0x10
    bad[i]["post"] = post
    p = os.path.join(wd, pid + "_negctl.ndjson")
    with open(p, "w") as f:
        for e in bad: f.write(json.dumps(e, separators=(",", ":")) + "\n")
    ok, res = validate_trace("PduTrace", TRACE_CFG, p, wd)
    if ok:
        raise Infra("negative control failed: a corrupted trace was accepted")
    v.cov.setdefault("negative_controls", []).append("corrupted byte in event %d rejected at depth %d" % (i + 1, res.depth))


def shard(lst, n):
    n = max(1, min(n, len(lst)))
    k = (len(lst) + n - 1) // n
    return [lst[i * k:(i + 1) * k] for i in range(n)]


# ------------------------------------------------------------------ histories (C05, C17)
def hist_cfg(mode, views, depth, nvals, imgs, nbuf, rand, invs):
    t = "SPECIFICATION HSpec\nCONSTANTS\n  Buf = {%s}\n  Mode = \"%s\"\n  HViews = {%s}\n  Depth = %d\n  NVals = %d\n  Imgs = {%s}\n  Rand = %s\n" % (
        ", ".join(str(i + 1) for i in range(nbuf)), mode, ", ".join('"%s"' % x for x in views), depth, nvals,
        ", ".join(str(i) for i in imgs), "TRUE" if rand else "FALSE")
    t += "CONSTRAINT EmitHist\nCHECK_DEADLOCK FALSE\n"
    for i in invs: t += "INVARIANT %s\n" % i
    return t


def replay_histories(v, ex, bind, hists, pid, rnd):
    """Each history is executed in one process, on persistent buffers, without resets; after every
    step the whole buffer, the result and the return code are compared with TLC's prediction."""
    cmds, meta = [], []
    skipped = 0
    for hi, h in enumerate(hists):
        ok = True
        for o in h["ops"]:
            if not bind.has_path(o["view"], o["field"], o["op"], o["path"]):
                ok = False
        if not ok:
            skipped += 1; continue
        for bi, b in enumerate(h["bufs"]):
            cmds.append("N %d %d %s" % (bi + 1, rnd.randrange(16), hexs(b["mem"]))); meta.append(None)
        cur = {bi + 1: b["mem"] for bi, b in enumerate(h["bufs"])}
        for k, o in enumerate(h["ops"]):
            fidx = bind.fidx[o["view"]].get(o["field"], -1) if o["field"] else -1
            cmds.append("D %d %s %s %s %d 0 %s %d" % (o["buf"], o["view"], o["op"], o["path"], fidx, hexs(o["val"]), o["base"]))
            vec = dict(o); vec["pre"] = cur[o["buf"]]
            cur[o["buf"]] = o["post"]
            meta.append((vec, "history %d step %d (%s)" % (hi, k + 1, " ; ".join("%s %s.%s/%s" % (x["op"], x["view"], x["field"], x["path"]) for x in h["ops"][max(0, k - 3):k + 1])),
                         " hist"))
    outs = ex.run_robust(cmds)
    if len(outs) != len(cmds):
        raise Infra("executor answered %d lines for %d commands: %s" % (len(outs), len(cmds), ex.stderr[-500:]))
    bad = 0
    for m, line in zip(meta, outs):
        if m is None: continue
        vec, what, xk = m
        if not compare(vec, line, v, pid, what, ""):
            bad += 1
    return {"executed": len(cmds), "histories": len(hists) - skipped, "skipped_unbound": skipped, "mismatches": bad}


def drive_histories(rnd, bind, layout, nhist, depth, views, nbuf=3):
    """Seeded random histories on persistent buffers (trace direction): returns cmds and event skeletons."""
    cmds, evs = [], []
    for _ in range(nhist):
        bufs = []
        for b in range(nbuf):
            view = rnd.choice(views)
            lead = rnd.choice((0, 0, 1, 3, 6))
            L = layout["hdrlen"][view]
            m = rand_bytes(rnd, lead + L + rnd.choice((0, 2, 5)))
            bufs.append((view, lead))
            cmds.append("N %d %d %s" % (b, rnd.randrange(16), hexs(m)))
            evs.append({"e": "load", "buf": b, "base": lead, "mem": m})
        for _ in range(depth):
            b = rnd.randrange(nbuf)
            view, lead = bufs[b]
            if rnd.random() < 0.08:     # another view of the same bytes, if it fits
                cand = [x for x in views if layout["hdrlen"][x] <= layout["hdrlen"][view]]
                view2 = rnd.choice(cand)
            else:
                view2 = view
            op = rnd.choice(("get", "set", "set", "init"))
            fields = list(layout["fields"][view2].keys())
            field, path, val = "", "", 0
            if op in ("get", "set"):
                field = rnd.choice(fields)
                paths = [p for p in ("generic", "dedicated", "legacy") if bind.has_path(view2, field, op, p)]
                if not paths: continue
                path = rnd.choice(paths)
                if op == "set": val = rand_val(rnd, layout["fields"][view2][field])
            else:
                paths = [p for p in ("current", "legacy") if bind.has_path(view2, "", "init", p)]
                if not paths: continue
                path = rnd.choice(paths)
                if path == "legacy" and view2 == "Cvf": val = rnd.randrange(256)
            fidx = bind.fidx[view2].get(field, -1) if field else -1
            cmds.append("D %d %s %s %s %d 0 %s %d" % (b, view2, op, path, fidx, hexs(v64(val)), lead))
            evs.append({"e": "op", "buf": b, "base": lead, "op": op, "view": view2, "field": field, "path": path,
                        "val": v64(val), "id": ""})
    return cmds, evs


def finish_hist_events(evs, outs, v, pid):
    done = []
    for ev, line in zip(evs, outs):
        if ev["e"] == "load":
            done.append(ev); continue
        t = line.split()
        status, ret, rc, out, post, canary = t[1], t[2], int(t[3]), t[4], t[5], t[6]
        key = "view=%s op=%s path=%s field=%s" % (ev["view"], ev["op"], ev["path"], ev["field"] or "-")
        if status.startswith("fault") or status.startswith("crash"):
            v.violation(key + " kind=fault", "call inside a random history faulted (%s)" % status, {"event": ev}); break
        if canary != "0":
            v.violation(key + " kind=canary", "call inside a random history modified memory outside its buffer", {"event": ev}); break
        e = dict(ev); e.update(post=unhexs(post), ret=unhexs(ret), rc=-rc, out=unhexs(out))
        done.append(e)
    return done


# ------------------------------------------------------------------ facts
def fact_events(bind, layout, kinds):
    """Static facts of the compiled tree as trace events for FactsTrace."""
    evs = []
    for view, vb in bind.views.items():
        if view not in layout.get("hdrlen", {}):
            continue          # a format the specification does not know (added to the tree later) carries no claim
        if "sizes" in kinds:
            evs.append({"e": "fact", "kind": "header_len", "view": view, "name": vb["len_macro"], "value": vb["header_len"]})
            evs.append({"e": "fact", "kind": "sizeof", "view": view, "name": "sizeof(Avtp_%s_t)" % view, "value": vb["sizeof"]})
            evs.append({"e": "fact", "kind": "payload_offset", "view": view, "name": "offsetof(Avtp_%s_t,payload)" % view, "value": vb["payload_offset"]})
        if "ret_bits" in kinds:
            for f in vb["fields"]:
                if f["get"] and f["name"] in layout["fields"].get(view, {}):
                    evs.append({"e": "fact", "kind": "ret_bits", "view": view, "field": f["name"], "name": f["get_sym"], "value": 8 * f["ret_size"]})
        if "legacy" in kinds:
            byid = {f["id"]: f["name"] for f in vb["fields"]}
            known_alias, known_struct = set(layout.get("legacyaliasnames", [])), set(layout.get("legacystructnames", []))
            for fa in vb["facts"]:
                # names the specification does not know (added upstream later) carry no claim: not validated
                if fa["kind"] == "macro" and fa["name"] not in known_alias: continue
                if fa["kind"] == "sizeof" and fa["name"] not in known_struct: continue
                if fa["kind"] == "offsetof" and fa["name"].rsplit(".", 1)[0] not in known_struct: continue
                if fa["kind"] == "macro":
                    if fa["value"] == vb["field_max"] and fa["name"].endswith("_MAX"):
                        evs.append({"e": "fact", "kind": "alias_max", "view": view, "name": fa["name"], "value": fa["value"]})
                    else:
                        evs.append({"e": "fact", "kind": "alias", "view": view, "name": fa["name"], "field": byid.get(fa["value"], "?"), "value": fa["value"]})
                elif fa["kind"] == "sizeof":
                    evs.append({"e": "fact", "kind": "struct_size", "view": view, "name": fa["name"], "value": fa["value"]})
                elif fa["kind"] == "offsetof":
                    nm, mem = fa["name"].rsplit(".", 1)
                    evs.append({"e": "fact", "kind": "struct_member", "view": view, "name": nm, "member": mem, "value": fa["value"]})
    return evs


def validate_facts(v, wd, evs, pid):
    cfg = open(os.path.join(SPEC, "FactsTrace.cfg")).read()
    def key(ev):
        return "fact=%s view=%s name=%s" % (ev["kind"], ev.get("view"), ev.get("name") + ("." + ev["member"] if "member" in ev else ""))
    return validate_events(v, wd, [evs], pid, name="facts", module="FactsTrace", cfg=cfg, keyfn=key)


def shard_by(evs, is_start, n):
    """split an event list into <= n parts at scenario boundaries"""
    starts = [i for i, e in enumerate(evs) if is_start(e)]
    if not starts: return [evs]
    n = max(1, min(n, len(starts)))
    per = (len(starts) + n - 1) // n
    cuts = [starts[i] for i in range(0, len(starts), per)] + [len(evs)]
    return [evs[cuts[i]:cuts[i + 1]] for i in range(len(cuts) - 1)]
