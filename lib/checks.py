"""Per-property checks.  Each function fills a Verdict."""
import os, sys, json, random, re
from infra import *
import pdu
from pdu import ALL_VIEWS, LEGACY_VIEWS, Bind

REGISTRY = {}
LEVELS = {}

def check(pid, level="model_checking"):
    def deco(fn):
        REGISTRY[pid] = fn; LEVELS[pid] = level
        return fn
    return deco


def setup(v, variant="O2"):
    wd = workdir()
    ex = Executor(build_exec(wd, variant), wd)
    bind = Bind(ex.describe())
    return wd, ex, bind


def gen_and_replay(v, wd, ex, bind, pid, tier, rnd, scn, views, nrand, walk, depth=1, props=(), invs=(), readback=False, name=None):
    res = run_tlc("GenPdu", pdu.gen_cfg(scn, views, nrand, walk, depth, props, invs), wd)
    v.add_tlc(name or ("GenPdu/" + scn), res)
    if not res.ok:
        raise Infra("the specification violates its own property in scenario %s:\n%s" % (scn, (res.violation or "")[-2000:]))
    st = pdu.replay(v, ex, bind, res.emitted, pid, tier, rnd, readback=readback)
    v.cov["evaluations"] += st["executed"]
    v.cov.setdefault("replayed_transitions", 0); v.cov["replayed_transitions"] += len(res.emitted)
    v.cov.setdefault("skipped_unbound", 0); v.cov["skipped_unbound"] += st["skipped_unbound"]
    if res.emitted:
        v.sample({"tlc_transition": res.emitted[len(res.emitted) // 3]})
    return res, st


CONFIG_VARIANTS = ("ndebug", "uchar", "allocfail", "smallstack", "autoinit", "libcfirst")
VARIANTS["smallstack"] = VARIANTS["O2"]          # same build; the executor runs its command loop on a 64 KiB thread stack (env VERIF_SMALL_STACK)

def config_executor(name, exe, wd):
    return Executor(exe, wd, env={"VERIF_SMALL_STACK": "1"} if name == "smallstack" else None)


def config_variant_names(v=None):
    """the fixed configurations plus one per compiler-controlled symbol that the tree's own preprocessor conditionals test"""
    dyn, syms = conditional_variants()
    VARIANTS.update(dyn)
    if v is not None:
        v.cov["preprocessor_conditionals_on_external_symbols"] = syms
    return list(CONFIG_VARIANTS) + sorted(dyn)

def replay_configs(v, wd, bind, vectors, pid, tier, rnd, publen=False, limit=None, readback=False):
    """The same TLC transitions through other build configurations of the library (release build with assert() compiled out,
    ABI with unsigned plain char): the specification has no configuration parameter, so every build must follow it."""
    import concurrent.futures as cf
    if limit and len(vectors) > limit:
        vectors = random.Random(7).sample(vectors, limit)
    names = config_variant_names(v)
    with cf.ThreadPoolExecutor(max_workers=4) as pool:
        exes = list(pool.map(lambda x: build_exec(wd, x), names))
    n = 0
    for name, exe in zip(names, exes):
        st = pdu.replay(v, config_executor(name, exe, wd), bind, vectors, pid, tier, rnd, publen=publen, places=[("E", 0)], tag="[build %s] " % name, readback=readback)
        n += st["executed"]
    # ... and through another data model: ILP32 (int, long, size_t and pointers of 32 bits), a freestanding -m32 build
    try:
        ex32 = Executor(build_exec32(wd), wd)
        st = pdu.replay(v, ex32, bind, vectors, pid, tier, rnd, publen=publen, places=[("E", 0)], tag="[data model ILP32] ", readback=False)
        n += st["executed"]; v.cov["data_models"] = ["LP64 (native)", "ILP32 (gcc -m32 -ffreestanding, harness/exec32.c)"]
    except CompileError as e:
        v.cov["data_models"] = ["LP64 (native)"]; v.cov["ilp32_note"] = "ILP32 build not possible here: " + str(e)[-300:]
    v.cov["evaluations"] += n
    v.cov.setdefault("build_configurations", ["default -O2"] + ["%s %s" % (VARIANTS[x][0], " ".join(VARIANTS[x][1])) for x in names])
    return n


def for_each_config(v, wd, fn):
    """run fn(executor, tag) for every extra build configuration (see replay_configs)"""
    import concurrent.futures as cf
    names = config_variant_names(v)
    with cf.ThreadPoolExecutor(max_workers=4) as pool:
        exes = list(pool.map(lambda x: build_exec(wd, x), names))
    n = 0
    for name, exe in zip(names, exes):
        n += fn(config_executor(name, exe, wd), "[build %s] " % name)
    # ... and under another data model: ILP32 (int, long, size_t and pointers of 32 bits), the freestanding -m32 executor
    try:
        n += fn(Executor(build_exec32(wd), wd), "[data model ILP32] ")
        v.cov["data_models"] = ["LP64 (native)", "ILP32 (gcc -m32 -ffreestanding, harness/exec32.c)"]
    except CompileError as e:
        v.cov["data_models"] = ["LP64 (native)"]; v.cov["ilp32_note"] = "ILP32 build not possible here: " + str(e)[-300:]
    v.cov["evaluations"] += n
    v.cov.setdefault("build_configurations", ["default -O2"] + ["%s %s" % (VARIANTS[x][0], " ".join(VARIANTS[x][1])) for x in names])
    return n


def traces(v, wd, ex, bind, pid, rnd, n, views, ops, nshards=8, name="random-calls"):
    layout = pdu.field_widths(wd)
    cmds, evs = pdu.drive_independent(rnd, bind, layout, n, views, ops)
    outs = ex.run_robust(cmds)
    if len(outs) != len(cmds):
        raise Infra("executor died during the random driver (exit %s): %s" % (ex.returncode, ex.stderr[-500:]))
    done = pdu.finish_events(evs, outs, v, pid)
    v.cov["evaluations"] += len(cmds)
    pdu.validate_events(v, wd, pdu.shard(done, nshards), pid, name)
    if done:
        v.sample({"trace_event": done[0]})
        pdu.negative_control(v, wd, done[:50], pid)
    return done


def api_audit(wd):
    """Every function the public headers declare, and those no harness command reaches (coverage statement, not a verdict)."""
    import glob as _g
    protos = set()
    for h in _g.glob(os.path.join(REPO, "include", "avtp", "**", "*.h"), recursive=True):
        src = re.sub(r"/\*.*?\*/", "", open(h).read(), flags=re.S)
        for m in re.finditer(r'^\s*(?:static\s+inline\s+)?[\w\*\s]+?\b((?:Avtp|avtp)_\w+|IsFieldDescriptorValid)\s*\(', src, flags=re.M):
            protos.add(m.group(1))
    text = ""
    for f in _g.glob(os.path.join(gen_bindings(wd), "*.c")) + [os.path.join(HARNESS, x) for x in ("exec.c", "exec_ext.c", "stress.c")]:
        text += open(f).read()
    pasted = set()
    for m in re.finditer(r'\b(Avtp_\w+)##bits', text):
        pasted |= {m.group(1) + b for b in ("16", "32", "64")}
    unbound = sorted(p_ for p_ in protos if p_ not in pasted and not re.search(r'\b' + p_ + r'\b', text))
    return {"public_functions": len(protos), "not_reached_by_any_harness_command": unbound}


@check("C01")
def c01(v, tier, seed):
    rnd = random.Random(seed)
    wd, ex, bind = setup(v)
    v.cov["api_audit"] = api_audit(wd)
    q = tier == "quick"
    res0, _ = gen_and_replay(v, wd, ex, bind, "C01", tier, rnd, "get", ALL_VIEWS, 2 if q else 24, True, props=["ReadOnlyOps"])
    replay_configs(v, wd, bind, res0.emitted, "C01", tier, rnd, limit=30000 if q else None)
    # values that collide with in-band error codes (2^w - errno) read back through every path
    gen_and_replay(v, wd, ex, bind, "C01", tier, rnd, "sentinel", ALL_VIEWS, 0, False, props=["ReadOnlyOps"])
    # every descriptor shape the generic reader accepts (start quadlet x bit offset 0..31 x width 0..64), not only those of named fields
    shape_sweep(v, wd, ex, "C01", rnd, q, "descriptor", ops=("get",))
    # readers that deliver through a pointer: the result object may lie inside the buffer that is read (field read first, then stored)
    gen_and_replay(v, wd, ex, bind, "C01", tier, rnd, "alias", LEGACY_VIEWS, 0, False, props=["FrameOK"])
    traces(v, wd, ex, bind, "C01", rnd, 24000 if q else 1500000, ALL_VIEWS, ("get",), nshards=8 if q else 16)
    # the dedicated getter's return type must be able to carry the whole field
    layout = pdu.field_widths(wd)
    for view, vb in bind.views.items():
        for f in vb["fields"]:
            w = layout["fields"].get(view, {}).get(f["name"])
            if w and f["get"] and 8 * f["ret_size"] < w:
                v.violation("view=%s op=get path=dedicated field=%s kind=retwidth" % (view, f["name"]),
                            "%s returns a %d-bit type for the %d-bit field %s" % (f["get_sym"], 8 * f["ret_size"], w, f["name"]),
                            {"fact": {"getter": f["get_sym"], "ret_bits": 8 * f["ret_size"], "field_bits": w}})
    v.cov["rule"] = ("TLC enumerates Get on every field x path from walking-one/walking-zero images over every header bit and background images; "
                     "every transition is executed on exact (guard-page), read-only and slack placements; plus seeded random calls validated by PduTrace")
    v.cov["distinct_nontrivial"] = v.cov.get("replayed_transitions", 0)
    v.cov["exhaustive"] = False


@check("C02")
def c02(v, tier, seed):
    rnd = random.Random(seed)
    wd, ex, bind = setup(v)
    q = tier == "quick"
    res0, _ = gen_and_replay(v, wd, ex, bind, "C02", tier, rnd, "set", ALL_VIEWS, 1 if q else 12, False,
                   props=["FrameOK", "OthersKept"], invs=["ReadBack"], readback=True)
    replay_configs(v, wd, bind, res0.emitted, "C02", tier, rnd, limit=30000 if q else None, readback=True)
    # prior contents related to the write's own result (one bit away from it, quadlet byte-reversed): "already in place" short cuts
    gen_and_replay(v, wd, ex, bind, "C02", tier, rnd, "nearset", ALL_VIEWS, 0, False,
                   props=["FrameOK", "OthersKept"], invs=["ReadBack"], readback=True)
    # every descriptor shape the generic writer accepts
    shape_sweep(v, wd, ex, "C02", rnd, q, "descriptor", ops=("set",))
    traces(v, wd, ex, bind, "C02", rnd, 24000 if q else 1500000, ALL_VIEWS, ("set",), nshards=8 if q else 16)
    v.cov["rule"] = ("TLC enumerates Set on every field x path x boundary values (0, 1, 2^w-1, 2^w, every single bit, all-ones, 0xAA.., 0x55..) "
                     "x background images; each is executed on exact and slack placements with all bytes compared, then read back through every reader; "
                     "plus seeded random 64-bit values on random images validated by PduTrace")
    v.cov["distinct_nontrivial"] = v.cov.get("replayed_transitions", 0)


def replay_file(pid, path, v):
    d = json.load(open(path))
    print(json.dumps(d, indent=1)[:4000])
    rep = d.get("replay", {})
    wd, ex, bind = setup(v)
    if "vector" in rep:
        rnd = random.Random(0)
        st = pdu.replay(v, ex, bind, [rep["vector"]], pid, "quick", rnd, readback=False)
        for k, desc, _ in v.violations:
            print("REPRODUCED: %s\n  %s" % (k, desc))
        return 1 if v.violations else 0
    if "trace_event" in rep or "event" in rep:
        ev = rep.get("trace_event") or rep.get("event")
        c = pdu.vec_cmd(ev, bind, "S", 0)
        print("command:", c); print("observed:", ex.run([c]))
        return 1
    print("(no executable replay for this record)")
    return 1


def run_hist(v, wd, ex, bind, pid, rnd, mode, views, depth, nvals, imgs, nbuf, invs, simulate=None, name=None, seed=0, timeout=1500):
    cfg = pdu.hist_cfg(mode, views, depth, nvals, imgs, nbuf, simulate is not None, invs)
    extra = ["-seed", str(seed)] if simulate else []
    res = run_tlc("GenHist", cfg, wd, simulate=simulate, extra_args=extra, timeout=timeout)
    if simulate:
        res.distinct = res.generated = sum(len(h["ops"]) + 1 for h in res.emitted)
    v.add_tlc(name or ("GenHist/" + mode), res)
    if not res.ok:
        raise Infra("the specification violates its own invariant in GenHist/%s:\n%s" % (mode, (res.violation or "")[-2000:]))
    st = pdu.replay_histories(v, ex, bind, res.emitted, pid, rnd)
    v.cov["evaluations"] += st["executed"]
    v.cov.setdefault("histories_replayed", 0); v.cov["histories_replayed"] += st["histories"]
    if res.emitted:
        h = res.emitted[len(res.emitted) // 2]
        v.sample({"tlc_history": {"bufs": h["bufs"], "ops": [{k: o[k] for k in ("buf", "op", "view", "field", "path", "val")} for o in h["ops"][:6]]}})
    return res, st


def facts(v, wd, bind, pid, kinds):
    layout = pdu.field_widths(wd)
    evs = pdu.fact_events(bind, layout, kinds)
    pdu.validate_facts(v, wd, evs, pid)
    v.cov.setdefault("facts_validated", 0); v.cov["facts_validated"] += len(evs)
    if evs: v.sample({"fact": evs[0]})
    return evs


def mc_wire(v, wd):
    res = run_tlc("MC_Wire1722", "INIT Init\nNEXT Next\n", wd, workers=1, timeout=300)
    v.add_tlc("MC_Wire1722 (layout theorems as ASSUMEs)", res)
    if not res.ok:
        raise Infra("layout transcription inconsistent:\n" + (res.violation or "")[-1500:])


@check("C03")
def c03(v, tier, seed):
    rnd = random.Random(seed)
    wd, ex, bind = setup(v)
    q = tier == "quick"
    mc_wire(v, wd)
    facts(v, wd, bind, "C03", ("sizes",))
    # every accessor / initialiser on a buffer of exactly the published length against an inaccessible page
    res = run_tlc("GenPdu", pdu.gen_cfg("hdr", ALL_VIEWS, 0 if q else 6, not q, 1, props=["FrameOK", "ReadOnlyOps"]), wd)
    v.add_tlc("GenPdu/hdr", res)
    if not res.ok: raise Infra("spec property violated: " + (res.violation or "")[-1500:])
    exact = [x for x in res.emitted if x["base"] == 0]
    st = pdu.replay(v, ex, bind, exact, "C03", tier, rnd, publen=True)
    v.cov["evaluations"] += st["executed"]; v.cov["replayed_transitions"] = len(exact)
    v.sample({"tlc_transition": exact[len(exact) // 2]})
    # the same transitions on exact-size heap objects under AddressSanitizer (header at offset 0 and 4 of the allocation): a guard page
    # only sees an access that crosses a page; ASan's red zone sees the first byte behind the object at any alignment, reads included
    replay_configs(v, wd, bind, exact, "C03", tier, rnd, publen=True)
    # the header inside a larger object that the CALLER owns and the compiler sees (a local array), library linked with -flto:
    # "nothing adjacent to it is read or written" in the build where the library is compiled in the context of its caller
    import wholeprog
    slack = [x for x in res.emitted if x["base"] != 0] or exact
    inits = [x for x in slack if x["op"] == "init"]
    rest = [x for x in slack if x["op"] != "init"]
    subw = inits[:600] + random.Random(3).sample(rest, min(len(rest), 1200 if q else 8000))
    v.cov["evaluations"] += wholeprog.replay(v, wd, bind, subw, "C03")
    st, sites = asan_heap_sweep(v, wd, bind, exact, "C03", tier, rnd)
    v.cov["evaluations"] += st["executed"]; v.cov["asan_heap_executions"] = st["executed"]
    v.cov["rule"] = ("facts (published length, sizeof, payload offset per view) validated by FactsTrace; every Get/Set/Init/payload transition "
                     "TLC enumerates is executed on a buffer of exactly the published header length placed against PROT_NONE pages, and on "
                     "exact-size heap objects (8-byte aligned and 4 mod 8) under AddressSanitizer")
    v.cov["distinct_nontrivial"] = len(exact)


def asan_heap_sweep(v, wd, bind, vectors, pid, tier, rnd, publen=True):
    """Replay on exact-size malloc'ed objects in a recoverable-ASan build; every ASan report whose stack passes through the
    library is a violation keyed by the library site (the executor marks each command on stderr)."""
    ex = Executor(build_exec(wd, "asanrec"), wd, env={"ASAN_OPTIONS": "halt_on_error=0:detect_leaks=0:allow_user_segv_handler=1:handle_segv=0:handle_sigbus=0:handle_sigfpe=0:print_summary=0"})
    st = pdu.replay(v, ex, bind, vectors, pid, tier, rnd, publen=publen, places=[("H", 0), ("H", 4)], tag="[asan heap] ")
    sites = {}
    cur = ""
    for blk in re.split(r"(?=##CMD )", ex.stderr):
        m = re.match(r"##CMD (\S+) (\S+) (\S+) (\S+)", blk)
        if not m or "ERROR: AddressSanitizer" not in blk: continue
        kind = re.search(r"ERROR: AddressSanitizer: (\S+)", blk).group(1)
        acc = re.search(r"(READ|WRITE) of size (\d+)", blk)
        fr = re.search(r"#\d+ 0x[0-9a-f]+ in (\w+) ([^\s:]*/(?:src|include)/[^\s:]+):(\d+)", blk)
        site = "%s %s" % (fr.group(1), os.path.basename(fr.group(2))) if fr else "?"
        key = "asan %s %s %s" % (kind, acc.group(1).lower() if acc else "access", site)
        if key in sites: sites[key]["count"] += 1; continue
        where = re.search(r"0x[0-9a-f]+ is located (\d+ bytes (?:to the right of|after|to the left of|before|inside of)[^\n]*)", blk)
        sites[key] = {"count": 1, "command": m.group(0), "where": where.group(1) if where else "", "report": blk[:1500]}
    for key, d in sites.items():
        v.violation(key, "AddressSanitizer: %s during '%s' on an exact-size heap header: %s (first of %d reports)" % (key, d["command"][6:], d["where"], d["count"]),
                    {"command": d["command"], "report": d["report"]})
    return st, sites


@check("C04")
def c04(v, tier, seed):
    rnd = random.Random(seed)
    wd, ex, bind = setup(v)
    q = tier == "quick"
    res0, _ = gen_and_replay(v, wd, ex, bind, "C04", tier, rnd, "init", ALL_VIEWS, 4 if q else 40, False, depth=2,
                   invs=["InitCanonical"], props=["FrameOK"])
    replay_configs(v, wd, bind, res0.emitted, "C04", tier, rnd)
    # ... and inside a caller that owns the buffer, library linked with -flto (what an initialiser leaves behind must not depend on what
    # the compiler knows about its caller's object)
    import wholeprog
    iv = [x for x in res0.emitted if x["op"] == "init" and x["path"] == "current"]
    v.cov["evaluations"] += wholeprog.replay(v, wd, bind, iv[:2500 if q else 20000], "C04")
    # prior contents one bit away from an initialised header / canonical prefix followed by junk: "already initialised" short cuts
    gen_and_replay(v, wd, ex, bind, "C04", tier, rnd, "nearinit", ALL_VIEWS, 0, False, depth=1 if q else 2,
                   invs=["InitCanonical"], props=["FrameOK"])
    traces(v, wd, ex, bind, "C04", rnd, 6000 if q else 600000, [x_ for x_ in sorted(bind.views) if x_ in ALL_VIEWS], ("init",), nshards=4 if q else 16, name="random-inits")
    v.cov["rule"] = "every initialiser (current and legacy) x background images x exact/slack arenas, twice in a row (idempotence); random prior contents validated by PduTrace"
    v.cov["distinct_nontrivial"] = v.cov.get("replayed_transitions", 0)


@check("C05")
def c05(v, tier, seed):
    rnd = random.Random(seed)
    wd, ex, bind = setup(v)
    q = tier == "quick"
    small = ["CommonHeader", "Udp", "H264", "AcfCommon", "Gpc", "SensorBrief", "Mjpeg", "Ntscf", "Lin", "Sensor", "VssBrief", "Vss"]
    # (0) the refinement mapping's premise: the whole state of the record is the PDU's memory.  A library object in a writable
    #     section is state the specification has no variable for (results could depend on calls made long ago on other buffers,
    #     beyond any history length a run can sample): validated as a fact, like C16's SharedCells = {}
    syms = writable_symbols(wd)
    import headers as _h
    prom = _h.function_promises(wd, _h.scan_headers())
    pdu.validate_facts(v, wd, [{"e": "fact", "kind": "header_len", "view": "Can", "name": "AVTP_CAN_HEADER_LEN", "value": 16}] + syms + prom, "C05")
    v.cov["declaration_promises_checked"] = len(prom)
    v.cov["writable_library_symbols"] = [x["name"] for x in syms]
    # (0') a history compressed into prior contents: the field holds a neighbour (one bit / one carry away) of the value written next
    gen_and_replay(v, wd, ex, bind, "C05", tier, rnd, "nearset", ALL_VIEWS, 0, False, props=["FrameOK", "OthersKept"], invs=["ReadBack"], readback=True)
    gen_and_replay(v, wd, ex, bind, "C05", tier, rnd, "alias", LEGACY_VIEWS, 0, False, props=["FrameOK"])
    # (0'') the shortest history with a caller that is one compiled function: read, write, read, write, read through the by-descriptor
    #      entry points with identical arguments (what the declarations promise the caller's compiler is part of what a call means);
    #      every descriptor shape, the optimised default build and every other build configuration
    g5 = shape_sweep(v, wd, ex, "C05", rnd, q, "one-function history", ops=("gsg",))
    sub5 = random.Random(5).sample(g5, min(len(g5), 6000 if q else 40000))
    for_each_config(v, wd, lambda ex2, tag: __import__("hostx").raw_replay(v, ex2, sub5, rnd, "one-function history " + tag, places=[("E", 0)])["executed"])
    # (a) exhaustive ordered pairs of operations: commutation, idempotence, RecordView
    run_hist(v, wd, ex, bind, "C05", rnd, "record", small if q else ALL_VIEWS, 2, 2, [1] if q else [0, 1, 5], 1,
             ["RecordView", "ReadsLastWritten"], name="GenHist/pairs")
    # (b) long random behaviours over three buffers of mixed formats (TLC simulation)
    groups = [ALL_VIEWS[i::4] for i in range(4)]
    for gi, g in enumerate(groups):
        run_hist(v, wd, ex, bind, "C05", rnd, "record", g, 40, 5, [0, 1, 5, 6, 7], 3, ["RecordView", "ReadsLastWritten"],
                 simulate="num=%d" % (6 if q else 1500), name="GenHist/simulate[%d]" % gi, seed=seed + gi)
    # (c) trace direction: seeded random histories recorded from the library, validated by PduTrace
    layout = pdu.field_widths(wd)
    shards = []
    nsh = 8 if q else 16
    cmds_all, evs_all = [], []
    for i in range(nsh):
        cmds, evs = pdu.drive_histories(rnd, bind, layout, 12 if q else 1000, 40, ALL_VIEWS)
        outs = ex.run_robust(cmds)
        done = pdu.finish_hist_events(evs, outs, v, "C05")
        shards.append(done)
        v.cov["evaluations"] += len(cmds)
    pdu.validate_events(v, wd, shards, "C05", "random-histories", independent=False)
    if shards and shards[0]:
        v.sample({"trace_prefix": shards[0][:4]})
        pdu.negative_control(v, wd, [e for e in shards[0][:80]], "C05")
    # (d) the example talkers' packet streams against the Talkers.tla stream machine
    with v.growth_scope("Talkers.tla / NalSplit.tla (example talkers as stream machines)"):
        talker_streams(v, wd, "C05", rnd, q)
        cvf_talker_streams(v, wd, "C05", rnd, q)
    v.cov["rule"] = ("(a) all ordered pairs of operations per view (BFS), (b) TLC-simulated histories of 40 operations over 3 buffers replayed without resets, "
                     "(c) seeded random histories recorded from the library and validated by PduTrace; RecordView/ReadsLastWritten invariants on the model; "
                     "(d) packet streams of the example talkers (AAF, CRF, hello-world, ACF-VSS in every mode) validated by the Talkers stream machine")
    v.cov["distinct_nontrivial"] = v.cov.get("histories_replayed", 0)


@check("C11")
def c11(v, tier, seed):
    rnd = random.Random(seed)
    wd, ex, bind = setup(v)
    q = tier == "quick"
    res0, _ = gen_and_replay(v, wd, ex, bind, "C11", tier, rnd, "bad", ALL_VIEWS, 0 if q else 3, False, props=["ReadOnlyOps", "FrameOK"])
    replay_configs(v, wd, bind, res0.emitted, "C11", tier, rnd, limit=30000 if q else None)
    # a rejected call writes nothing - not even the bytes that are already there: every rejected call with a valid PDU again, on read-only memory
    ro = [x for x in res0.emitted if not x["op"].startswith("null")]
    st = pdu.replay(v, ex, bind, ro, "C11", tier, rnd, places=[("R", 0)], tag="[read-only PDU] ")
    v.cov["evaluations"] += st["executed"]
    # valid arguments through the deprecated entry points return success (and the right bytes)
    gen_and_replay(v, wd, ex, bind, "C11", tier, rnd, "pairs", LEGACY_VIEWS, 0, False, depth=1, name="GenPdu/valid-legacy")
    v.cov["rule"] = ("null PDU x every field x every path, out-of-range identifiers {MAX, MAX+1, 255, 256, 256+k for every valid k, 65536, 2^31-1} "
                     "x {generic, legacy}, null result pointer; buffers on guard-page and read-only placements")
    v.cov["distinct_nontrivial"] = v.cov.get("replayed_transitions", 0)


@check("C12")
def c12(v, tier, seed):
    rnd = random.Random(seed)
    wd, ex, bind = setup(v)
    q = tier == "quick"
    facts(v, wd, bind, "C12", ("legacy",))
    for scn, nr, walk in (("get", 2, True), ("set", 1, False), ("init", 4, False)):
        res0, _ = gen_and_replay(v, wd, ex, bind, "C12", tier, rnd, scn, LEGACY_VIEWS, nr if q else nr * 6, walk, readback=(scn == "set"))
        replay_configs(v, wd, bind, res0.emitted, "C12", tier, rnd, limit=15000 if q else None)
    # in-band error values (2^w - errno), near-valid prior contents: where a wrapper's error convention or short cut could differ from the current API
    # ... and states in which the small fields hold meaningful numbers together (pairwise-covering: format codes, depths, counts)
    for scn in ("sentinel", "nearset", "nearinit", "domain"):
        gen_and_replay(v, wd, ex, bind, "C12", tier, rnd, scn, LEGACY_VIEWS, 0, False, readback=(scn == "nearset"))
    # the deprecated getters write their result through a pointer: it may point into the PDU itself (in-place conversion of a received
    # header); the field must be read before the result object is written
    gen_and_replay(v, wd, ex, bind, "C12", tier, rnd, "alias", LEGACY_VIEWS, 0, False, props=["FrameOK"])
    traces(v, wd, ex, bind, "C12", rnd, 8000 if q else 800000, LEGACY_VIEWS, ("get", "set", "init"), nshards=4 if q else 16, name="legacy-vs-current")
    # the repository's own unit tests (which drive the deprecated API) recorded through an LD_PRELOAD interposer
    unit_test_traces(v, wd, "C12")
    v.cov["rule"] = ("legacy alias macros and packed structures validated as facts by FactsTrace; the same TLC transitions are executed through the "
                     "legacy and the current entry points (bytes, results, return codes compared with the one specification)")
    v.cov["distinct_nontrivial"] = v.cov.get("replayed_transitions", 0)


@check("C17")
def c17(v, tier, seed):
    rnd = random.Random(seed)
    wd, ex, bind = setup(v)
    q = tier == "quick"
    mc_wire(v, wd)
    run_hist(v, wd, ex, bind, "C17", rnd, "views", ["G1", "G2", "G3", "G4"], 2, 3 if q else 5, [0, 1] if q else [0, 1, 5, 6], 1,
             ["ViewsAgree"], name="GenHist/views")
    # a shared field written through each view's own entry points on prior contents one bit away from the result (every view
    # is compared with the one specification of the shared field, so equal verdicts mean the views agree)
    gen_and_replay(v, wd, ex, bind, "C17", tier, rnd, "alias", LEGACY_VIEWS, 0, False, props=["FrameOK"])
    res0, _ = gen_and_replay(v, wd, ex, bind, "C17", tier, rnd, "nearshared", ALL_VIEWS, 0, False, props=["FrameOK"], readback=True)
    replay_configs(v, wd, bind, res0.emitted, "C17", tier, rnd, limit=20000 if q else None, readback=True)
    # every reader of every view on the same images, in every build configuration and data model (a view's dedicated reader
    # may be its own code: agreement of views is agreement of each with the one specification in each build)
    resg, _ = gen_and_replay(v, wd, ex, bind, "C17", tier, rnd, "get", ALL_VIEWS, 0 if q else 2, False, name="GenPdu/get (all views, all readers)")
    replay_configs(v, wd, bind, resg.emitted, "C17", tier, rnd, limit=20000 if q else None)
    v.cov["rule"] = ("for every group of views sharing fields: every ordered pair (A,B) of views x shared field x values x images: write through A, "
                     "read through B on the same buffer; SharedWellFormed checked as an ASSUME")
    v.cov["distinct_nontrivial"] = v.cov.get("histories_replayed", 0)


@check("C06")
def c06(v, tier, seed):
    import can
    rnd = random.Random(seed)
    wd, ex, bind = setup(v)
    q = tier == "quick"
    lens = list(range(0, 65))
    for scn, ls, nbg in (("create", lens, 2 if q else 3), ("split", lens if not q else list(range(0, 13)) + [31, 32, 33, 63, 64], 1 if q else 2),
                         ("long", list(range(65, 2029, 1 if not q else 37)) + [2027, 2028], 1),
                         ("create", [65, 100, 255, 256, 257, 1000, 2027, 2028] if q else [65, 66, 67, 100, 127, 128, 255, 256, 257, 511, 512, 1000, 1023, 1024, 2025, 2026, 2027, 2028], 1),
                         # prior contents = the builder's own result with one header bit flipped / stale pad bytes / one payload bit flipped
                         ("near", list(range(0, 10)) + [63, 64] if q else list(range(0, 65)), 1 if q else 2),
                         # a message of the other kind rebuilt in place: the payload source lies inside the PDU buffer (no overlap with its destination)
                         ("inplace", list(range(0, 9)), 1 if q else 2)):
        kinds = ["full", "brief"]
        if scn == "long": ls = [x for x in ls if x <= 2028]
        res = run_tlc("GenCan", can.cfg(scn, ls, kinds, nbg), wd)
        v.add_tlc("GenCan/" + scn, res)
        if not res.ok: raise Infra("CanBuild violates its own theorem (%s):\n%s" % (scn, (res.violation or "")[-1500:]))
        vecs = [x for x in res.emitted if not (scn == "long" and x["kind"] == "brief" and x["len"] > 2036)]
        st = can.replay(v, ex, vecs, rnd)
        v.cov["evaluations"] += st["executed"]
        v.cov.setdefault("replayed_transitions", 0); v.cov["replayed_transitions"] += len(vecs)
        if vecs: v.sample({"tlc_transition": vecs[len(vecs) // 2]})
        if scn == "create" and ls is lens:
            sub = vecs if len(vecs) <= 6000 else random.Random(11).sample(vecs, 6000)
            for_each_config(v, wd, lambda ex2, tag: can.replay(v, ex2, sub, rnd, places=[("E", 0)], tag=tag)["executed"])
    # growth (AcfContainer.tla): TSCF / NTSCF containers with several mixed full / brief messages, offsets from the lengths read back
    import container
    with v.growth_scope("AcfContainer.tla (control-format container with several mixed ACF-CAN messages)"):
        for ctrls, mx, ls, nbg in ((("Tscf", "Ntscf"), 2, (0, 1, 2, 3, 4, 5, 8), 1),) + (() if q else ((("Tscf", "Ntscf"), 3, (0, 3, 4, 8, 64), 1), (("Ntscf",), 2, tuple(range(0, 17)) + (63, 64), 2))):
            res = run_tlc("AcfContainer", container.cfg(ctrls, mx, ls, nbg, 2 if (mx == 2 and len(ctrls) == 2) else 1), wd)     # reopen / second close only in the small instance
            v.add_tlc("AcfContainer/max%d" % mx, res)
            if not res.ok: raise Infra("AcfContainer violates its own theorem:\n%s" % ((res.violation or "")[-1500:]))
            st = container.replay(v, ex, res.emitted, rnd)
            v.cov["evaluations"] += st["executed"]
            v.cov.setdefault("containers_replayed", 0); v.cov["containers_replayed"] += len(res.emitted)
            if res.emitted: v.sample({"tlc_container": {k: res.emitted[len(res.emitted) // 2][k] for k in ("ctrl", "msgs", "used")}})
            if mx == 2 and len(ctrls) == 2:
                sub = res.emitted if len(res.emitted) <= 1500 else random.Random(13).sample(res.emitted, 1500)
                for_each_config(v, wd, lambda ex2, tag: container.replay(v, ex2, sub, rnd, places=[("E", 0)], tag=tag)["executed"])
    cmds, evs = can.drive(rnd, 6000 if q else 600000)
    outs = ex.run_robust(cmds)
    done = can.finish(evs, outs, v)
    v.cov["evaluations"] += len(cmds)
    cfgt = open(os.path.join(SPEC, "CanTrace.cfg")).read()
    pdu.validate_events(v, wd, pdu.shard(done, 6 if q else 16), "C06", "random-builds", module="CanTrace", cfg=cfgt,
                        keyfn=lambda e: "can kind=%s op=%s kind=trace" % (e["kind"], e["op"]))
    if done: v.sample({"trace_event": {k: done[0][k] for k in ("kind", "op", "id", "fd", "len", "ret")}})
    v.cov["rule"] = ("TLC: every payload length 0..64 x 9 identifiers around the 11/29/32-bit boundaries x {classic, FD} x {full, brief} x backgrounds x 2 header pre-states "
                     "(create; copy/idfields/finalize composition; finalize alone up to the 9-bit limit); replayed on arenas ending exactly at the padded message "
                     "against a guard page; random payloads/identifiers validated by CanTrace")
    v.cov["distinct_nontrivial"] = v.cov.get("replayed_transitions", 0)


def vss_gen(v, wd, ex, pid, rnd, scn, modes, types, nbg, lens=(12,), big=False, name=None, heap="8g"):
    import vss
    res = run_tlc("GenVss", vss.cfg(scn, modes, types, nbg, lens, big), wd, heap=heap, timeout=2400)
    v.add_tlc(name or ("GenVss/" + scn), res)
    if not res.ok: raise Infra("VssCodec violates its own theorem (%s):\n%s" % (scn, (res.violation or "")[-1500:]))
    st = vss.replay(v, ex, res.emitted, rnd)
    v.cov["evaluations"] += st["executed"]
    v.cov.setdefault("replayed_transitions", 0); v.cov["replayed_transitions"] += len(res.emitted)
    if scn in ("encode", "decode", "pad", "nearpad"):
        sub = res.emitted if len(res.emitted) <= 6000 else random.Random(11).sample(res.emitted, 6000)
        for_each_config(v, wd, lambda ex2, tag: vss.replay(v, ex2, sub, rnd, places=[("E", 0)], tag=tag)["executed"])
    if res.emitted:
        x = res.emitted[len(res.emitted) // 2]
        v.sample({"tlc_transition": {k: (x[k] if len(str(x[k])) < 300 else str(x[k])[:300]) for k in x}})
    return res


def vss_traces(v, wd, ex, pid, rnd, n, ops, nshards, name):
    import vss
    cmds, evs = vss.drive(rnd, n, ops)
    outs = ex.run_robust(cmds)
    if len(outs) != len(cmds): raise Infra("executor died in the VSS driver: " + ex.stderr[-400:])
    done = vss.finish(evs, outs, v)
    v.cov["evaluations"] += len(cmds)
    cfgt = open(os.path.join(SPEC, "VssTrace.cfg")).read()
    pdu.validate_events(v, wd, pdu.shard(done, nshards), pid, name, module="VssTrace", cfg=cfgt,
                        keyfn=lambda e: vss.vkey(e) + " kind=trace")
    if done: v.sample({"trace_event": {k: done[0][k] for k in ("op", "arg", "n", "len", "bytes", "ret", "mode", "dt")}})


@check("C07")
def c07(v, tier, seed):
    import vss
    rnd = random.Random(seed)
    wd, ex, bind = setup(v)
    q = tier == "quick"
    vss_gen(v, wd, ex, "C07", rnd, "encode", [0, 1, 2, 3], vss.ALL_TYPES + vss.RESERVED_TYPES, 1 if q else 3)
    if not q:
        vss_gen(v, wd, ex, "C07", rnd, "encode", [0, 1], [11, 128, 130, 134, 138, 139], 1, big=True, name="GenVss/encode-max-lengths", heap="16g")
    # prior contents = the same call's own result with one bit of the path / value / length prefix flipped
    vss_gen(v, wd, ex, "C07", rnd, "near", [0, 1], vss.ALL_TYPES, 1 if q else 2, name="GenVss/near")
    vss_traces(v, wd, ex, "C07", rnd, 8000 if q else 600000, ("putpath", "putdata"), 6 if q else 16, "random-encodes")
    v.cov["rule"] = ("TLC: 4 address modes x 24 datatypes + reserved codes x paths {0,1,4,13 bytes incl. NUL; 3 static ids} x per-type value patterns "
                     "(extremes, distinct bytes, NaN payload, sign bit; 0,1,2,3,7 elements) x backgrounds x 2 buffer offsets: putpath then putdata replayed on "
                     "arenas ending right behind the message; random paths/values validated by VssTrace")
    v.cov["distinct_nontrivial"] = v.cov.get("replayed_transitions", 0)


@check("C08")
def c08(v, tier, seed):
    import vss
    rnd = random.Random(seed)
    wd, ex, bind = setup(v)
    q = tier == "quick"
    vss_gen(v, wd, ex, "C08", rnd, "decode", [0, 1], vss.ALL_TYPES, 1 if q else 3)
    if not q:
        vss_gen(v, wd, ex, "C08", rnd, "decode", [0, 1], [11, 128, 130, 134, 138, 139], 1, big=True, name="GenVss/decode-max-lengths", heap="16g")
    # the string-array value of a decoded message is unpacked with the two-call protocol (lengths first, then destinations - for some
    # strings, all, or through one shared skip descriptor): the same small-scope enumeration as C10
    cfg_sa = "SPECIFICATION SSpec\nCONSTANTS\n  Buf = {1}\n  MaxN = 3\n  MaxL = 2\n  Extra = FALSE\nCONSTRAINT Emit\nINVARIANT RoundTrip\nINVARIANT TotalLen\nCHECK_DEADLOCK FALSE\n"
    res_sa = run_tlc("GenStrArr", cfg_sa, wd, heap="8g", timeout=1200)
    v.add_tlc("GenStrArr (unpack protocol)", res_sa)
    if not res_sa.ok: raise Infra("GenStrArr violates its own theorem:\n" + (res_sa.violation or "")[-1500:])
    v.cov["evaluations"] += vss.sa_replay(v, ex, [x for x in res_sa.emitted if x["op"] == "unpack"])["executed"]
    vss_traces(v, wd, ex, "C08", rnd, 8000 if q else 600000, ("calcpath", "getpath", "getdata"), 6 if q else 16, "random-decodes")
    # identity on library-encoded messages: encode with the library, decode with the library, TLC validates both halves
    cmds, evs = vss.drive(rnd, 2000 if q else 120000, ("putdata",))
    outs = ex.run_robust(cmds)
    enc = vss.finish(evs, outs, v)
    cmds2, evs2 = [], []
    for e in enc:
        d = {"e": "vss", "op": "getdata", "arg": [], "n": 1, "base": e["base"], "pre": e["post"], "mode": e["mode"], "dt": e["dt"]}
        cap = len(e["arg"])
        cmds2.append(vss.cmd(dict(d, len=cap), "E", 0, cap=cap)); evs2.append((d, e["arg"]))
    outs2 = ex.run_robust(cmds2)
    dec = vss.finish([d for d, _ in evs2], outs2, v)
    v.cov["evaluations"] += len(cmds) + len(cmds2)
    cfgt = open(os.path.join(SPEC, "VssTrace.cfg")).read()
    pdu.validate_events(v, wd, pdu.shard(dec, 4 if q else 16), "C08", "library-roundtrip", module="VssTrace", cfg=cfgt,
                        keyfn=lambda e: vss.vkey(e) + " kind=trace")
    v.cov["rule"] = ("TLC: every reference-encoded message of the C07 domain (DecodeInvertsEncode on the model) decoded by the library: calcpath, getpath, "
                     "getdata with and without destination; message at the end of an exact-extent buffer (over-read faults), destinations of exactly the "
                     "reported size against a guard page; library-encoded messages decoded again (round trip), all validated by VssTrace")
    v.cov["distinct_nontrivial"] = v.cov.get("replayed_transitions", 0)


@check("C09")
def c09(v, tier, seed):
    import vss
    rnd = random.Random(seed)
    wd, ex, bind = setup(v)
    q = tier == "quick"
    lens = list(range(12, 2045)) if not q else sorted(set(list(range(12, 140)) + list(range(140, 2045, 23)) + [1020, 1021, 1022, 1023, 1024, 1025, 2041, 2042, 2043, 2044]))
    vss_gen(v, wd, ex, "C09", rnd, "pad", [0], [0], 2 if q else 3, lens=lens)
    # finalising an already finalised message whose pad bytes are stale / whose first quadlet is one bit off
    nl = sorted(set(list(range(12, 34)) + [1022, 2043])) if q else [x for x in lens if x < 300 or x > 2030]
    vss_gen(v, wd, ex, "C09", rnd, "nearpad", [0], [0], 1 if q else 2, lens=nl, name="GenVss/nearpad")
    vss_traces(v, wd, ex, "C09", rnd, 4000 if q else 300000, ("pad",), 4 if q else 16, "random-pads")
    # the length accessors carry all 512 values: dedicated + generic, through the PduStore machinery
    res = run_tlc("GenLen512", "SPECIFICATION GSpec\nCONSTANT Buf = {1}\nCONSTRAINT Emit\nINVARIANT ReadBack\nCHECK_DEADLOCK FALSE\n", wd)
    v.add_tlc("GenLen512", res)
    if not res.ok: raise Infra("GenLen512: " + (res.violation or "")[-800:])
    st = pdu.replay(v, ex, bind, res.emitted, "C09", tier, rnd, readback=True)
    v.cov["evaluations"] += st["executed"]; v.cov["replayed_transitions"] = v.cov.get("replayed_transitions", 0) + len(res.emitted)
    v.cov["rule"] = ("TLC: Pad for message lengths 12..2044 x backgrounds x 2 offsets (PadOK, FrameVss on the model) replayed on arenas with patterned pad bytes "
                     "and trailing bytes; all 512 values of acf_msg_length through the dedicated and generic accessors; random lengths/contents validated by VssTrace")
    v.cov["distinct_nontrivial"] = v.cov.get("replayed_transitions", 0)
    v.cov["exhaustive"] = not q


@check("C10")
def c10(v, tier, seed):
    import vss
    rnd = random.Random(seed)
    wd, ex, bind = setup(v)
    q = tier == "quick"
    cfg = "SPECIFICATION SSpec\nCONSTANTS\n  Buf = {1}\n  MaxN = %d\n  MaxL = %d\n  Extra = TRUE\nCONSTRAINT Emit\nINVARIANT RoundTrip\nINVARIANT TotalLen\nCHECK_DEADLOCK FALSE\n" % (3, 2 if q else 3)
    res = run_tlc("GenStrArr", cfg, wd, heap="12g", timeout=2400)
    v.add_tlc("GenStrArr", res)
    if not res.ok: raise Infra("GenStrArr violates its own theorem:\n" + (res.violation or "")[-1500:])
    st = vss.sa_replay(v, ex, res.emitted)
    small = [x for x in res.emitted if len(x["blob"]) < 5000]
    # (the caller on a 64 KiB stack runs the large arrays too: a frame that grows with the array is a write outside what the caller provided)
    for_each_config(v, wd, lambda ex2, tag: vss.sa_replay(v, ex2, res.emitted if "smallstack" in tag else small, tag=tag)["executed"])
    v.cov["evaluations"] += st["executed"]; v.cov["replayed_transitions"] = len(res.emitted)
    x = next((e for e in res.emitted if e["op"] == "unpack" and e["req"] > e["count"] > 0), res.emitted[0])
    v.sample({"tlc_transition": {k: (x[k] if len(str(x[k])) < 300 else "...") for k in x}})
    cmds, evs = vss.sa_drive(rnd, 4000 if q else 400000)
    outs = ex.run_robust(cmds)
    done = vss.sa_finish(evs, outs, v)
    v.cov["evaluations"] += len(cmds)
    cfgt = open(os.path.join(SPEC, "VssTrace.cfg")).read()
    pdu.validate_events(v, wd, pdu.shard(done, 4 if q else 16), "C10", "random-string-arrays", module="VssTrace", cfg=cfgt,
                        keyfn=lambda e: "strarr op=%s kind=trace" % e.get("op"))
    v.cov["rule"] = ("TLC: every list of 0..3 strings of length 0..%d over {NUL,'a'} plus special lists (255, 256 and 300 empty strings, 300- and 4000-byte strings): pack, count, "
                     "unpack with requested counts {0,n-1,n,n+1,n+5} with/without destinations; sources and destinations are exact-extent buffers against guard pages; "
                     "random lists validated by VssTrace" % (2 if q else 3))
    v.cov["distinct_nontrivial"] = len(res.emitted)
    v.cov["exhaustive"] = True


def bo_cfg(size, branch, full16):
    return ("SPECIFICATION Spec\nCONSTANTS\n  Size = %d\n  Branch = \"%s\"\n  MemHost = \"LE\"\n  Full16 = %s\nCONSTRAINT Emit\nINVARIANT T11\nCHECK_DEADLOCK FALSE\n"
            % (size, branch, "TRUE" if full16 else "FALSE"))


def bo_constant_calls(v, wd, vecs_by_branch, q):
    """Generated translation units that call the helpers with constant arguments; results compared with the TLC transitions."""
    import subprocess
    n = 0
    for branch, vecs in vecs_by_branch.items():
        calls = []
        for e in vecs:
            x = from64([0] * (8 - e["size"]) + e["x"]); bits = 8 * e["size"]
            spell = ["0x%x" % x, "%uu" % x if x < 2 ** 32 else "0x%xull" % x]
            for t, lim in (("uint8_t", 8), ("uint16_t", 16), ("uint32_t", 32), ("uint64_t", 64)):
                if x < 2 ** lim and lim <= bits: spell.append("(%s)0x%x" % (t, x))
            for sp in spell:
                calls.append((e, sp))
        src = ['#include <stdio.h>', '#include <stdint.h>', '#include "avtp/Byteorder.h"', 'int main(void) {']
        for i, (e, sp) in enumerate(calls):
            src.append('  printf("%%d %%llx\\n", %d, (unsigned long long)Avtp_%s%d(%s));' % (i, e["fn"], 8 * e["size"], sp))
        src += ['  return 0;', '}']
        cfile = os.path.join(wd, "bo_const_%s.c" % branch); exe = cfile[:-2]
        open(cfile, "w").write("\n".join(src) + "\n")
        flags = ["-O1", "-w", "-std=gnu99", "-I" + os.path.join(REPO, "include")] + (["-U__BYTE_ORDER__", "-D__BYTE_ORDER__=__ORDER_BIG_ENDIAN__"] if branch == "BE" else [])
        r = subprocess.run(["gcc"] + flags + [cfile, "-o", exe], capture_output=True, text=True)
        if r.returncode != 0: raise CompileError("constant-argument calls do not compile: " + r.stderr[-1500:])
        out = subprocess.run([exe], capture_output=True, text=True, timeout=120).stdout.split("\n")
        for ln in out:
            if not ln: continue
            i, val = ln.split(); e, sp = calls[int(i)]
            want = from64([0] * (8 - e["size"]) + e["val"])
            if int(val, 16) != want:
                v.violation("bo fn=%s%d branch=%s kind=constant-argument" % (e["fn"], 8 * e["size"], branch),
                            "Avtp_%s%d(%s) with a compile-time constant argument returns 0x%s, specification 0x%x (%s-endian helper set)" % (
                                e["fn"], 8 * e["size"], sp, val, want, "little" if branch == "LE" else "big"), {"vector": e, "spelling": sp, "observed": val})
        n += len(calls)
    return n


@check("C13")
def c13(v, tier, seed):
    import sys as _s
    if _s.byteorder != "little":
        raise Infra("this check models the sandbox as a little-endian host")
    rnd = random.Random(seed)
    wd = workdir()
    q = tier == "quick"
    exs = {"LE": Executor(build_exec(wd, "O2"), wd), "BE": Executor(build_exec(wd, "be"), wd)}
    fns = ("CpuToBe", "BeToCpu", "CpuToLe", "LeToCpu", "Bswap")
    nrep = 0
    const_vecs = {"LE": [], "BE": []}
    for branch in ("LE", "BE"):
        for size in (2, 4, 8):
            res = run_tlc("GenBo", bo_cfg(size, branch, size == 2 and (branch == "LE" or not q)), wd)
            v.add_tlc("GenBo/%s/%d" % (branch, 8 * size), res)
            if not res.ok: raise Infra("ByteOrder violates T11:\n" + (res.violation or "")[-1200:])
            cmds = ["BO %s %d %s" % (e["fn"], e["size"], hexs(e["x"])) for e in res.emitted]
            if branch == "LE":
                # the helpers are inline functions of a header: every other build configuration of the tree compiles its own copy
                def bo_in_config(ex2, tag, cmds=cmds, em=res.emitted, size=size):
                    sub_i = list(range(0, len(cmds), max(1, len(cmds) // 4000)))
                    o2 = ex2.run_robust([cmds[i] for i in sub_i])
                    for i, line in zip(sub_i, o2):
                        e = em[i]
                        t = dict(x.split("=") for x in line.split()[2:]) if line.startswith("R ok") else {}
                        if t.get("val") != hexs(e["val"]) or t.get("img") != hexs(e["img"]):
                            v.violation("bo fn=%s%d branch=LE %s" % (e["fn"], 8 * size, tag.strip()), "%sAvtp_%s%d(0x%s): value %s image %s, specification value %s image %s" % (
                                tag, e["fn"], 8 * size, hexs(e["x"]), t.get("val"), t.get("img"), hexs(e["val"]), hexs(e["img"])), {"vector": e, "observed": line})
                    return len(sub_i)
                for_each_config(v, wd, bo_in_config)
            outs = exs[branch].run_robust(cmds)
            for e, line in zip(res.emitted, outs):
                t = dict(x.split("=") for x in line.split()[2:]) if line.startswith("R ok") else {}
                key = "bo fn=%s%d branch=%s" % (e["fn"], 8 * size, branch)
                if t.get("val") != hexs(e["val"]) or t.get("img") != hexs(e["img"]):
                    v.violation(key, "Avtp_%s%d(0x%s) in the %s-endian helper set: value %s image %s, specification value %s image %s" % (
                        e["fn"], 8 * size, hexs(e["x"]), "little" if branch == "LE" else "big", t.get("val"), t.get("img"), hexs(e["val"]), hexs(e["img"])),
                        {"vector": e, "observed": line})
            nrep += len(cmds)
            if res.emitted: v.sample({"tlc_transition": res.emitted[len(res.emitted) // 2]})
            const_vecs[branch] += random.Random(seed + size).sample(res.emitted, min(len(res.emitted), 400 if q else 3000))
    v.cov["evaluations"] += nrep; v.cov["replayed_transitions"] = nrep
    # the same transitions with the argument written as a compile-time constant (literal of the natural type, and cast to every
    # narrower exact-width type it fits): a helper may be a macro or be folded by the compiler on that path, and C's integer
    # promotions act on the argument expression there
    nconst = bo_constant_calls(v, wd, const_vecs, q)
    v.cov["evaluations"] += nconst; v.cov["constant_argument_calls"] = nconst
    # trace direction: random 16/32/64-bit values through both builds
    evs, cmds = {"LE": [], "BE": []}, {"LE": [], "BE": []}
    n = 12000 if q else 1200000
    for _ in range(n):
        b = rnd.choice(("LE", "BE")); size = rnd.choice((2, 4, 8)); fn = rnd.choice(fns)
        x = [rnd.randrange(256) for _ in range(size)]
        cmds[b].append("BO %s %d %s" % (fn, size, hexs(x))); evs[b].append({"e": "bo", "fn": fn, "size": size, "branch": b, "mem": "LE", "x": x})
    done = []
    for b in ("LE", "BE"):
        outs = exs[b].run_robust(cmds[b])
        for e, line in zip(evs[b], outs):
            if not line.startswith("R ok"): raise Infra("executor: " + line)
            t = dict(x.split("=") for x in line.split()[2:])
            done.append(dict(e, val=unhexs(t["val"]), img=unhexs(t["img"])))
    rnd.shuffle(done)
    v.cov["evaluations"] += len(done)
    cfgt = open(os.path.join(SPEC, "BoTrace.cfg")).read()
    pdu.validate_events(v, wd, pdu.shard(done, 6 if q else 16), "C13", "random-values", module="BoTrace", cfg=cfgt,
                        keyfn=lambda e: "bo fn=%s%d branch=%s kind=trace" % (e["fn"], 8 * e["size"], e["branch"]))
    v.sample({"trace_event": done[0]})
    v.cov["rule"] = ("TLC: all 2^16 values for the 16-bit helpers; for 32/64 bit every (byte position x byte value) on 3 backgrounds + walking bits; 5 functions x 3 widths x "
                     "both compile-time branches (native and forced big-endian); result values and memory images compared; T11/Mirror on the model; random values validated by BoTrace")
    v.cov["distinct_nontrivial"] = nrep


ALL_OFFS = list(range(32))
BIG_QS = [7, 62, 63, 64, 65, 127, 128, 200, 253, 254, 255]
ALL_WS = list(range(65))

def shape_sweep(v, wd, ex, pid, rnd, q, tag, memhost="LE", branch="LE", ops=None):
    import hostx
    ws = [0, 1, 2, 7, 8, 9, 15, 16, 17, 24, 29, 31, 32, 33, 40, 48, 63, 64] if q else ALL_WS
    res = run_tlc("GenImpl", hostx.impl_cfg([0, 1], ALL_OFFS, ws, memhost, branch, bigqs=BIG_QS), wd)
    v.add_tlc("GenImpl/shapes %s/%s" % (memhost, branch), res)
    if not res.ok: raise Infra("GenericImpl violates T7:\n" + (res.violation or "")[-1200:])
    vecs = [x for x in res.emitted if ops is None or x["op"] in ops]
    if memhost == "LE" and branch == "LE":
        try:
            st32 = hostx.raw_replay(v, Executor(build_exec32(wd), wd), vecs, rnd, tag + " ILP32", places=[("E", 0)])
            v.cov["evaluations"] += st32["executed"]
        except CompileError:
            pass
    st = hostx.raw_replay(v, ex, vecs, rnd, tag)
    v.cov["evaluations"] += st["executed"]
    v.cov.setdefault("replayed_transitions", 0); v.cov["replayed_transitions"] += len(vecs)
    v.sample({"tlc_transition": vecs[len(vecs) // 2]})
    return vecs


@check("C14")
def c14(v, tier, seed):
    import hostx, can, vss
    rnd = random.Random(seed)
    wd = workdir()
    q = tier == "quick"
    ex_n = Executor(build_exec(wd, "O2"), wd)
    ex_x = Executor(build_exec(wd, "be"), wd)
    bind = Bind(ex_x.describe())
    # (1) T7 / HostIndependent on the model, and the native build follows GenericImpl(LE, LE)
    nat = shape_sweep(v, wd, ex_n, "C14", rnd, q, "native")
    # ... in every build configuration of this host (which helper set a translation unit selects must not depend on what was included before it,
    # nor on the optimisation / ABI switches): the same transitions through each of them
    sub_n = random.Random(11).sample(nat, min(len(nat), 12000 if q else 60000))
    for_each_config(v, wd, lambda ex2, tag: hostx.raw_replay(v, ex2, sub_n, rnd, "native " + tag, places=[("E", 0)])["executed"])
    # (2) the crossed build (big-endian helper set on little-endian memory) follows GenericImpl(LE, BE) - or, if the accessors are written
    #     without the helpers (fields assembled from single bytes), the bit semantics itself.  A crossed build can only be predicted under
    #     a model of how the code reaches multi-byte values; the model enumerates both styles, and ONE of them must fit every transition
    def merge(vv):
        for k_, d_, r_ in vv.violations: v.violation(k_, d_, r_)
    def scratch():
        return Verdict("C14", tier, seed, v.level)
    _swaps = {}
    def swaps_in_be_build():
        """byte swapping reachable from library code compiled for a big-endian host (-O0, so nothing is folded or recognised as an idiom):
        a big-endian host never needs to swap big-endian wire data.  Evidence against the helper-free styles: code that swaps
        unconditionally gives the right bytes on little-endian memory whatever the configuration says."""
        import subprocess
        if "v" in _swaps: return _swaps["v"]
        found = []
        _swaps["v"] = found
        for src in lib_sources():
            obj = os.path.join(wd, "be0_" + os.path.basename(src) + ".o")
            r_ = subprocess.run(["gcc", "-O0", "-c", "-w", "-std=gnu99"] + [f_ for f_ in VARIANTS["be"][1] if f_.startswith("-D") or f_.startswith("-U")] +
                                ["-I" + os.path.join(REPO, "include"), src, "-o", obj], capture_output=True, text=True)
            if r_.returncode != 0: continue
            dis = subprocess.run(["objdump", "-d", "--no-show-raw-insn", obj], capture_output=True, text=True).stdout
            for ln in dis.split("\n"):
                if re.search(r"\b(bswap|movbe)\b|\brol[wl]?\s+\$(0x)?8\b|call.*<(Avtp_Bswap\d+|ntoh[ls]|hton[ls]|be\d\dtoh|htobe\d\d|__bswap\w*)>", ln):
                    found.append("%s: %s" % (os.path.basename(src), " ".join(ln.split()[1:])[:60])); break
        return found
    acc_style = "walk"
    vv = scratch()
    shape_sweep(vv, wd, ex_x, "C14", rnd, q, "crossed", "LE", "BE")
    for r_ in vv.cov["tlc_runs"]: v.cov["tlc_runs"].append(r_)
    v.cov["states"] += vv.cov["states"]; v.cov["transitions"] += vv.cov["transitions"]; v.cov["evaluations"] += vv.cov["evaluations"]
    v.cov["replayed_transitions"] = v.cov.get("replayed_transitions", 0) + vv.cov.get("replayed_transitions", 0)
    if vv.violations:
        # per entry point (reader / writer / the one-function history that uses both)
        rawop = lambda k_: re.search(r"raw op=(\w+)", k_).group(1) if re.search(r"raw op=(\w+)", k_) else k_
        pending = set(rawop(k_) for k_, _, _ in vv.violations)
        vb = scratch()
        hostx.raw_replay(vb, ex_x, nat, rnd, "crossed (helper-free accessors)")
        explained = pending - set(rawop(k_) for k_, _, _ in vb.violations)
        sw = swaps_in_be_build()
        if explained and not sw:
            pending -= explained
            if {"get", "set"} <= explained or not (pending & {"get", "set"}): acc_style = "bits"
        if sw: v.cov["swaps_in_big_endian_build"] = sw
        for k_, d_, r_ in vv.violations:
            if rawop(k_) in pending: v.violation(k_, d_, r_)
    v.cov["accessor_style_in_crossed_build"] = acc_style
    # (2b) host independence is agreement of BOTH builds with the one specification: the native build on the array encodings
    #      (also with the samples converted in place), the crossed build below
    resn = run_tlc("GenVss", vss.cfg("encode", [0], [130, 131, 132, 133, 134, 135, 137, 138], 1), wd, timeout=1800)
    v.add_tlc("GenVss/encode (native build, arrays)", resn)
    if not resn.ok: raise Infra("VssCodec violates its own theorem:\n" + (resn.violation or "")[-1200:])
    sub = [x for x in resn.emitted if len(x["pre"]) <= 700]
    v.cov["evaluations"] += vss.replay(v, ex_n, sub, rnd, places=[("E", 0)], tag="[native] ")["executed"]
    groups = [ALL_VIEWS[i::3] for i in range(3)] if q else [[x] for x in ALL_VIEWS]
    def crossed_scn(vt, scn, gi, g, acc, codec):
        res = run_tlc("GenX", hostx.x_cfg(scn, g, "LE", "BE", bigcounts=(64, 300) if q else (64, 300, 512, 1024), acc=acc, codec=codec), wd, timeout=3600)
        v.add_tlc("GenX/%s[%d]%s" % (scn, gi, "" if (acc, codec) == ("walk", "helpers") else " (%s, %s)" % (acc, codec)), res)
        if not res.ok: raise Infra("HostModel violates HostIndependence (%s):\n%s" % (scn, (res.violation or "")[-1500:]))
        return crossed_replay(vt, scn, res.emitted)
    def crossed_replay(v, scn, vecs):
            for x in vecs:
                x.setdefault("path", "generic"); x.setdefault("id", ""); x.setdefault("rc", 0); x.setdefault("out", [165, 90] * 4)
                if isinstance(x.get("ret"), list) and scn == "vss": x["ret"] = from64(x["ret"])
            if scn in ("fields", "init"):
                full = []
                for x in vecs:
                    paths = ("generic", "dedicated") if scn == "fields" else ("current",)
                    for p in paths:
                        y = dict(x, path=p); full.append(y)
                st = pdu.replay(v, ex_x, bind, full, "C14", tier, rnd)
            elif scn == "can":
                st = can.replay(v, ex_x, [dict(x, ret=(len(x["post"]) - 5 if x["kind"] == "brief" else 0)) for x in vecs], rnd)
            elif scn == "strarr":
                st = vss.sa_replay(v, ex_x, vecs, tag="crossed ")
            else:
                st = vss.replay(v, ex_x, vecs, rnd)
            v.cov["evaluations"] += st["executed"]; v.cov["replayed_transitions"] = v.cov.get("replayed_transitions", 0) + len(vecs)
            if vecs: v.sample({"crossed_transition": {k: (vecs[0][k] if len(str(vecs[0][k])) < 200 else "...") for k in vecs[0]}})
    # Every entry point may reach multi-byte values in its own way.  The prediction for the tree's own style (accessor style found above,
    # codec through the helpers) comes first; entry points it does not explain are compared with the predictions of the other style
    # combinations.  An entry point is accepted if ONE combination explains all of its transitions - a helper-free combination only if
    # the library compiled for a big-endian host contains no swap primitive.
    def entry(k_):
        return re.sub(r" kind=\S+$", "", k_)
    other = "bits" if acc_style == "walk" else "walk"
    helper_free = {}
    for scn in ("fields", "init", "can", "vss", "strarr"):
        for gi, g in enumerate(groups if scn in ("fields", "init") else [ALL_VIEWS[:1]]):
            vt = scratch()
            crossed_scn(vt, scn, gi, g, acc_style, "helpers")
            v.cov["evaluations"] += vt.cov["evaluations"]; v.cov["replayed_transitions"] = v.cov.get("replayed_transitions", 0) + vt.cov.get("replayed_transitions", 0)
            for s_ in vt.cov["samples"][:1]: v.sample(s_)
            pending = set(entry(k_) for k_, _, _ in vt.violations)
            if pending:
                combos = [(acc_style, "bytes"), (other, "helpers"), (other, "bytes")] if scn in ("vss", "strarr") else [(other, "helpers")]
                for acc_, codec_ in combos:
                    if not pending: break
                    vb = scratch()
                    crossed_scn(vb, scn, gi, g, acc_, codec_)
                    explained = pending - set(entry(k_) for k_, _, _ in vb.violations)
                    if explained and not swaps_in_be_build():
                        pending -= explained
                        for e_ in explained: helper_free[e_] = "%s/%s" % (acc_, codec_)
            for k_, d_, r_ in vt.violations:
                if entry(k_) in pending: v.violation(k_, d_, r_)
    v.cov["entry_points_explained_by_another_style"] = dict(sorted(helper_free.items())[:200])
    v.cov["rule"] = ("model: T7 (quadlet walk = bit semantics on both hosts) over every descriptor shape, HostIndependence for named fields, initialisers, CAN builders "
                     "and the VSS codec; binding: native build replay of the shape sweep and crossed build (forced big-endian helper set on little-endian memory) replay "
                     "of shapes, every named field x 2 paths, initialisers, CAN builds and VSS put/get, compared with the model's prediction for (host=LE, branch=BE)")
    v.cov["distinct_nontrivial"] = v.cov.get("replayed_transitions", 0)
    v.assumptions.append("no big-endian execution platform exists in the sandbox: big-endian memory is modelled (Store/Load), the big-endian helper set is executed on little-endian memory")
    v.assumptions.append("a crossed build is predictable only under a model of how the code reaches multi-byte values: two styles are enumerated (through the byte-order helpers / byte by byte); "
                         "the byte-by-byte style is accepted only if the library compiled for a big-endian host (-O0) contains no byte-swap primitive (code that swaps "
                         "unconditionally looks like that style on little-endian memory)")


def c15_vectors(v, wd, q):
    """TLC-generated transition sets for the placement sweep (predictions carry no address)."""
    import hostx, can, vss
    sets = {}
    views = ["Can", "CanBrief", "Gpc", "Tscf", "Ntscf", "Rvf", "Crf", "Vss", "Most", "Udp"] if q else ALL_VIEWS
    res = run_tlc("GenPdu", pdu.gen_cfg("hdr", views, 0, False, 1), wd); v.add_tlc("GenPdu/hdr", res)
    sets["pdu"] = [x for x in res.emitted if x["base"] == 0 and x["op"] != "payload"]
    res = run_tlc("GenImpl", hostx.impl_cfg([0, 1], [0, 3, 16, 24, 31], [1, 8, 29, 32, 33, 48, 64], "LE", "LE"), wd); v.add_tlc("GenImpl", res)
    sets["raw"] = res.emitted
    res = run_tlc("GenCan", can.cfg("create", list(range(0, 13)) + [63, 64], ["full", "brief"], 1), wd); v.add_tlc("GenCan/create", res)
    sets["can"] = res.emitted
    types = [2, 4, 6, 9, 10, 11, 130, 132, 134, 137, 138, 139] if q else vss.ALL_TYPES
    res = run_tlc("GenVss", vss.cfg("encode", [0, 1], types, 1), wd); v.add_tlc("GenVss/encode", res)
    sets["vss"] = [x for x in res.emitted if x["base"] == 0]
    res = run_tlc("GenVss", vss.cfg("decode", [0, 1], types, 1), wd); v.add_tlc("GenVss/decode", res)
    sets["vss"] += [x for x in res.emitted if x["base"] == 0]
    res = run_tlc("GenVss", vss.cfg("pad", [0], [0], 1, lens=list(range(12, 30))), wd); v.add_tlc("GenVss/pad", res)
    sets["vss"] += [x for x in res.emitted if x["base"] == 0]
    # the placement sweep multiplies every transition by 20 placements x 7 builds: keep the messages up to 300 bytes (element counts
    # beyond that are the business of C07/C08)
    sets["vss"] = [x for x in sets["vss"] if len(x["pre"]) <= 300]
    for r in v.cov["tlc_runs"]:
        if not r["ok"]: raise Infra("specification property violated in " + r["run"])
    return sets


@check("C15")
def c15(v, tier, seed):
    import hostx, can, vss, re, concurrent.futures as cf
    rnd = random.Random(seed)
    wd = workdir()
    q = tier == "quick"
    sets = c15_vectors(v, wd, q)
    variants = ["gccO0", "gccO2", "gccO3", "clangO0", "clangO1", "clangO3"] if q else ["gccO0", "gccO1", "gccO2", "gccO3", "clangO0", "clangO1", "clangO2", "clangO3"]
    with cf.ThreadPoolExecutor(max_workers=8) as pool:
        exes = dict(zip(variants + ["align"], pool.map(lambda x: build_exec(wd, x), variants + ["align"])))
    places = [("S", o) for o in range(8)]
    # builders and codec also read a source object (payload, path, value): every combination of (PDU address mod 4, source address mod 4)
    places2 = [("S", o + 100 * s_) for o in range(8) for s_ in (range(4) if o < 4 else (0,))]
    # ... and the payload source exactly 2^32 bytes above the place it is copied to (pointer differences that do not fit 32 bits)
    places_can = places2 + [("S", 1000 + o) for o in (0, 3)]
    bind = None
    def sweep(name):
        nonlocal bind
        ex = Executor(exes[name], wd)
        if bind is None: bind = Bind(ex.describe())
        n = 0
        tag = "[%s] " % name
        n += pdu.replay(v, ex, bind, sets["pdu"], "C15", tier, rnd, places=places, tag=tag)["executed"]
        # a placement is also a kind of memory: readers work on a PDU in read-only memory (a mapped capture, a constant test vector)
        n += pdu.replay(v, ex, bind, [x for x in sets["pdu"] if x["op"] == "get"], "C15", tier, rnd, places=[("R", 0)], tag=tag)["executed"]
        n += hostx.raw_replay(v, ex, sets["raw"], rnd, "build=%s" % name if False else "native", places=places)["executed"]
        n += can.replay(v, ex, sets["can"], rnd, places=places_can, tag=tag)["executed"]
        n += vss.replay(v, ex, sets["vss"], rnd, places=places2, tag=tag)["executed"]
        return n, ex.stderr
    total = 0
    for name in variants:
        n, _ = sweep(name); total += n
    # alignment sanitizer: every misaligned typed access is an event the specification has no action for
    n, err = sweep("align"); total += n
    sites = sorted(set(re.findall(r"([\w/\.\-]+\.[ch]):(\d+):\d+: runtime error: (load|store|member access|reference binding)[^\n]*misaligned", err)))
    for f, line, kind in sites:
        if "/harness/" in f or "/bind/" in f: continue
        rel = f[f.find("/src/") + 1:] if "/src/" in f else (f[f.find("/include/") + 1:] if "/include/" in f else f)
        v.violation("misaligned %s %s" % (kind, rel), "%s:%s performs a %s through a pointer that assumes more than byte alignment (UBSan -fsanitize=alignment, PDU at address offsets 0..7)" % (rel, line, kind),
                    {"site": "%s:%s" % (rel, line), "kind": kind})
    v.cov["evaluations"] += total
    v.cov["replayed_transitions"] = sum(len(x) for x in sets.values())
    v.cov["builds"] = variants + ["align"]
    v.sample({"tlc_transition": sets["can"][0], "placements": places})
    v.cov["rule"] = ("TLC-generated transitions (header accessors and initialisers, raw descriptors, CAN builders, VSS codec and finalisation) replayed with the PDU at "
                     "address offsets 0..7 (relative to a page; for builders and codec also every source-object alignment mod 4) under %d compiler/optimisation builds: every result must equal the address-free prediction of the "
                     "specification; the same under clang -fsanitize=alignment, where each misaligned typed access is reported" % len(variants))
    v.cov["distinct_nontrivial"] = v.cov["replayed_transitions"]


def writable_symbols(wd):
    """Library-defined objects in writable sections of the compiled objects (C16: SharedCells must be empty)."""
    import subprocess
    out = []
    objdir = os.path.join(wd, "objs"); os.makedirs(objdir, exist_ok=True)
    for opt in ("-O0", "-O2"):
        for src in lib_sources():
            o = os.path.join(objdir, os.path.basename(src) + opt + ".o")
            r = subprocess.run(["gcc", opt, "-fPIC", "-std=gnu99", "-w", "-I" + os.path.join(REPO, "include"), "-c", src, "-o", o], capture_output=True, text=True)
            if r.returncode != 0: raise CompileError(r.stderr[-2000:])
            r = subprocess.run(["nm", "-f", "sysv", "--defined-only", o], capture_output=True, text=True)
            for ln in r.stdout.split("\n"):
                f = [x.strip() for x in ln.split("|")]
                if len(f) < 7: continue
                name, cls, typ, sec = f[0], f[2], f[3], f[6]
                if typ not in ("OBJECT", "TLS", "COMMON"): continue
                if sec.startswith(".data.rel.ro") or sec.startswith(".rodata"): continue
                if sec.startswith(".data") or sec.startswith(".bss") or sec.startswith(".tbss") or sec.startswith(".tdata") or sec in ("*COM*", "COM"):
                    rel = os.path.relpath(src, REPO)
                    out.append({"e": "fact", "kind": "writable_symbol", "name": "%s:%s" % (rel, name.split(".")[0]), "view": "", "value": 0, "section": sec})
    # unique
    seen, uniq = set(), []
    for e in out:
        if e["name"] not in seen: seen.add(e["name"]); uniq.append(e)
    return uniq


def reentrancy_cfg(threads, k, calls, shared):
    return ("SPECIFICATION Spec\nCONSTANTS\n  Threads = {%s}\n  K = %d\n  SharedCells = {%s}\n  Calls = %d\nINVARIANT SequentialResults\nINVARIANT NoCrossTalk\nINVARIANT SharedUntouched\nCHECK_DEADLOCK FALSE\n"
            % (", ".join(str(i + 1) for i in range(threads)), k, '"scratch"' if shared else "", calls))


@check("C16")
def c16(v, tier, seed):
    import vss, subprocess, glob as _g
    rnd = random.Random(seed)
    wd = workdir()
    q = tier == "quick"
    # (1) the model: all interleavings of quadlet-granular steps; the negative model shows non-vacuity
    res = run_tlc("Reentrancy", reentrancy_cfg(3, 2, 2, False) if q else reentrancy_cfg(3, 3, 3, False), wd)
    v.add_tlc("Reentrancy (SharedCells = {})", res)
    if not res.ok: raise Infra("Reentrancy model violated with SharedCells = {}:\n" + (res.violation or "")[-1200:])
    neg = run_tlc("Reentrancy", reentrancy_cfg(2, 2, 1, True), wd)
    v.add_tlc("Reentrancy negative model (SharedCells = {scratch})", neg)
    if neg.ok: raise Infra("negative Reentrancy model found no race: the model is vacuous")
    v.cov["negative_model"] = "with a library-owned static scratch cell TLC finds a violating interleaving (NoCrossTalk/SequentialResults)"
    # (2) SharedCells = {} holds for the compiled library: no library object in a writable section
    syms = writable_symbols(wd)
    ok_evs = [{"e": "fact", "kind": "header_len", "view": "Can", "name": "AVTP_CAN_HEADER_LEN", "value": 16}]  # keeps the trace non-empty
    pdu.validate_facts(v, wd, ok_evs + syms, "C16")
    v.cov["writable_library_symbols"] = [s["name"] for s in syms]
    # (3) stress: 8 threads under TSan; per-thread logs validated by the sequential trace specifications
    ex = Executor(build_exec(wd, "O2"), wd); bind = Bind(ex.describe()); layout = pdu.field_widths(wd)
    stress = os.path.join(wd, "stress_tsan")
    cmd = ["clang", "-O1", "-g", "-fsanitize=thread", "-fno-strict-aliasing", "-std=gnu99", "-w", "-I" + os.path.join(REPO, "include"), "-I" + HARNESS,
           os.path.join(HARNESS, "stress.c")] + sorted(_g.glob(os.path.join(gen_bindings(wd), "*.c"))) + lib_sources() + ["-o", stress, "-lpthread", "-lm"]
    r = subprocess.run(cmd, capture_output=True, text=True)
    if r.returncode != 0: raise CompileError(r.stderr[-3000:])
    nthr = 8
    per = 1500 if q else 40000
    L = layout["hdrlen"]
    shared = pdu.rand_bytes(rnd, 32)
    lines = ["S 0 " + hexs(shared)]
    # source arrays that every thread encodes from (read-shared inputs of the encoder)
    sarrs = []
    for k_, dt_ in enumerate((134, 138, 132, 130)):
        val_ = vss.rand_value(rnd, dt_)
        while len(val_) < 16: val_ = vss.rand_value(rnd, dt_)
        sarrs.append((dt_, val_)); lines.append("A %d %d %s" % (k_, dt_, hexs(val_)))
    evs = {t: [] for t in range(nthr)}
    for t in range(nthr):
        lines.append("T %d" % t)
        views = [rnd.choice(ALL_VIEWS) for _ in range(4)]
        for s_ in range(4):
            m = pdu.rand_bytes(rnd, L[views[s_]])          # exactly the header: the next byte belongs to another thread's PDU
            lines.append("L %d %s" % (s_, hexs(m))); evs[t].append({"e": "load", "buf": s_, "base": 0, "mem": m})
        i = 0
        while i < per:
            k = rnd.random()
            if k < 0.12:      # read of the shared buffer (any view that fits)
                view = rnd.choice([x for x in ALL_VIEWS if L[x] <= 32])
                field = rnd.choice(list(layout["fields"][view]))
                paths = [p for p in ("generic", "dedicated", "legacy") if bind.has_path(view, field, "get", p)]
                if not paths: continue
                p = rnd.choice(paths)
                lines.append("D S %s get %s %d 0000000000000000 0" % (view, p, bind.fidx[view][field]))
                evs[t].append({"e": "op", "buf": 7, "base": 0, "op": "get", "view": view, "field": field, "path": p, "val": v64(0), "id": "", "pre": shared})
            elif k < 0.16:    # encode one of the shared source arrays into a private message
                k_ = rnd.randrange(4); dt_, val_ = sarrs[k_]
                lead = rnd.randrange(4)
                msg = pdu.rand_bytes(rnd, lead) + vss.hdr_bytes(rnd, 1, dt_) + [1, 2, 3, 4] + pdu.rand_bytes(rnd, 2 + len(val_) + 3)
                lines.append("W %d %d %s" % (k_, lead, hexs(msg)))
                evs[t].append({"e": "vss", "op": "putdata", "arg": val_, "n": 0, "base": lead, "pre": msg, "mode": 1, "dt": dt_})
            elif k < 0.30:    # VSS decode of a private message with thread-specific content
                dt = rnd.choice([128, 129, 130, 131, 132, 133, 134, 135, 136, 137, 138, 139, 11, 2, 6, 10])
                val = vss.rand_value(rnd, dt)
                mode = rnd.choice((0, 1)); path = [rnd.randrange(256) for _ in range(rnd.choice((1, 4, 13)))] if mode == 0 else [1, 2, 3, 4]
                pw, dw = vss.enc_ref(mode, path, dt, val)
                lead = rnd.randrange(4)
                msg = pdu.rand_bytes(rnd, lead) + vss.hdr_bytes(rnd, mode, dt) + pw + dw
                wd_ = 0 if (dt in (11,) or dt >= 128) and rnd.random() < 0.4 else 1       # length query (no destination) or full decode
                lines.append("V %d %d %d %d %s" % (dt, wd_, len(val), lead, hexs(msg)))
                evs[t].append({"e": "vss", "op": "getdata", "arg": [], "n": wd_, "base": lead, "pre": msg, "mode": mode, "dt": dt})
            else:
                s_ = rnd.randrange(4); view = views[s_]
                op = rnd.choice(("get", "set", "set", "init"))
                field, p, val = "", "", 0
                if op == "init":
                    ps = [x for x in ("current", "legacy") if bind.has_path(view, "", "init", x)]
                    if not ps: continue
                    p = rnd.choice(ps)
                    if p == "legacy" and view == "Cvf": val = rnd.randrange(256)
                else:
                    field = rnd.choice(list(layout["fields"][view]))
                    ps = [x for x in ("generic", "dedicated", "legacy") if bind.has_path(view, field, op, x)]
                    if not ps: continue
                    p = rnd.choice(ps)
                    if op == "set": val = pdu.rand_val(rnd, layout["fields"][view][field])
                lines.append("D %d %s %s %s %d %s 0" % (s_, view, op, p, bind.fidx[view].get(field, -1), hexs(v64(val))))
                evs[t].append({"e": "op", "buf": s_, "base": 0, "op": op, "view": view, "field": field, "path": p, "val": v64(val), "id": ""})
            i += 1
    inp = os.path.join(wd, "stress_in.txt")
    open(inp, "w").write("\n".join(lines) + "\n")
    env = dict(os.environ, TSAN_OPTIONS="halt_on_error=0:report_signal_unsafe=0:exitcode=0")
    runs = 2 if q else 10
    for run in range(runs):
        try:
            r = subprocess.run([stress, inp], capture_output=True, text=True, timeout=900, env=env)
        except subprocess.TimeoutExpired:
            v.violation("stress kind=hang", "the concurrent stress run did not finish within 900 s", {}); break
        if r.returncode != 0:
            v.violation("stress kind=crash", "the concurrent stress run died (exit %d): %s" % (r.returncode, r.stderr[-600:]), {}); break
        mod = re.findall(r"##PDU-MODIFIED ([^\n]*)", r.stderr)
        if mod:
            v.violation("stress kind=foreign-pdu-modified", "read-only decode calls modified a message that was passed to an EARLIER call (state retained across calls): %s (%d messages)" % (mod[0], len(mod)), {"messages": mod[:20]})
        races = re.findall(r"WARNING: ThreadSanitizer: data race.*?(?=\n\n|\Z)", r.stderr, flags=re.S)
        for rc_ in races[:5]:
            loc = re.search(r"#\d+ (\w+) ([\w/\.\-]+):(\d+)", rc_)
            site = ("%s %s" % (loc.group(1), os.path.basename(loc.group(2)))) if loc else "?"
            v.violation("tsan race %s" % site, "ThreadSanitizer reports a data race between library calls on distinct PDUs: " + rc_[:700], {"report": rc_[:2000]})
        # per-thread logs -> trace events
        obs = {t: [] for t in range(nthr)}
        for ln in r.stdout.split("\n"):
            if not ln: continue
            tid, idx, rest = ln.split(" ", 2)
            obs[int(tid)].append(rest)
        want = {t: sum(1 for e in evs[t] if e["e"] != "load") for t in range(nthr)}
        if any(len(obs[t]) != want[t] for t in range(nthr)):
            v.violation("stress kind=incomplete", "a thread logged %s calls instead of %s (stderr: %s)" % ({t: len(obs[t]) for t in obs}, want, r.stderr[-400:]), {})
            break
        pdu_shards, vss_shards = [], []
        for t in range(nthr):
            it = iter(obs[t]); pe, ve = [], []
            for e in evs[t]:
                if e["e"] == "load": pe.append(e); continue
                line = next(it)
                if e["e"] == "op":
                    tk = line.split()
                    pe.append(dict(e, post=unhexs(tk[5]), ret=unhexs(tk[2]), rc=-int(tk[3]), out=unhexs(tk[4])))
                else:
                    o = vss.parse(line)
                    ve.append({"e": "vss", "op": e["op"], "arg": e["arg"], "n": e["n"], "base": e["base"], "pre": e["pre"], "post": unhexs(o["post"]),
                               "ret": 0, "len": int(o["len"]), "bytes": unhexs(o["data"]), "mode": e["mode"], "dt": e["dt"]})
            pdu_shards.append(pe); vss_shards.append(ve)
        pdu.validate_events(v, wd, pdu_shards, "C16", "thread-log-run%d" % run, independent=False,
                            keyfn=lambda e: "concurrent view=%s op=%s field=%s kind=trace" % (e.get("view"), e.get("op"), e.get("field") or "-"))
        cfgt = open(os.path.join(SPEC, "VssTrace.cfg")).read()
        pdu.validate_events(v, wd, vss_shards, "C16", "thread-vss-run%d" % run, module="VssTrace", cfg=cfgt,
                            keyfn=lambda e: "concurrent " + vss.vkey(e) + " kind=trace")
        v.cov["evaluations"] += sum(len(x) for x in evs.values())
    v.sample({"thread_log_event": evs[0][5], "threads": nthr, "ops_per_thread": per})
    # (4) "only the objects passed to them": accepted and rejected calls with the process's ambient state instrumented - the executor
    # interposes getenv/secure_getenv/rand/random/time/isatty, poisons errno before the call and reports any use of them
    for scn_ in ("bad", "get", "set", "init"):
        gen_and_replay(v, wd, ex, bind, "C16", tier, rnd, scn_, ALL_VIEWS, 0, False, name="GenPdu/%s (ambient state instrumented)" % scn_)
    v.cov["ambient_state"] = "getenv, secure_getenv, rand, random, time, isatty interposed in the executor; errno poisoned before each call and compared after it"
    v.cov["rule"] = ("model: every interleaving of quadlet-granular load/store steps of 3 threads (own buffers + one read-shared buffer), SharedCells = {} ; "
                     "binding: (a) no library object in a writable section of the compiled objects (-O0 and -O2; function-local statics included) - validated by FactsTrace, "
                     "(b) %d threads x %d calls under ThreadSanitizer, each thread's log validated by the sequential trace specifications" % (nthr, per))
    v.cov["distinct_nontrivial"] = res.distinct
    v.assumptions.append("the universal claim over schedules rests on SharedCells = {} (structural fact checked on the objects) plus readers not writing (C01 read-only placement); the stress run samples schedules")


def tunnel_cfg(tscf, udp, fd, count, npackets=None, lens=None, caplens=()):
    t = "CONSTANTS\n  Buf = {1}\n  Tscf = %d\n  Udp = %d\n  Fd = %d\n  Count = %d\n" % (tscf, udp, fd, count)
    if npackets is not None:
        t += "  CapSet = {%s}\n" % ", ".join(str(100 * (j + 1) + l) for j, l in enumerate(caplens))
        return "SPECIFICATION GSpec\n" + t + "  NPackets = %d\n  Lens = {%s}\nCONSTRAINT Emit\nINVARIANT RefTransparent\nCHECK_DEADLOCK FALSE\n" % (npackets, ", ".join(map(str, lens)))
    return "SPECIFICATION TSpec\n" + t + "INVARIANT Transparent\nINVARIANT Quiescent\nPOSTCONDITION TraceAccepted\nCHECK_DEADLOCK FALSE\n"


def capacity_lens(tscf, udp, fd, target):
    """data lengths of a frame sequence whose packet is exactly <target> bytes long (largest messages first)"""
    room = target - (4 if udp else 0) - (24 if tscf else 12)
    sizes = list(range(80, 12, -4)) if fd else [24, 20, 16]
    best = {0: []}
    for tot in range(4, room + 1, 4):
        for sz in sizes:
            if tot - sz in best:
                best[tot] = best[tot - sz] + [sz]; break
    out = []
    for i, sz in enumerate(best[room]):
        ln = sz - 16
        if ln > 0 and i % 3 == 1: ln -= 1            # some messages with pad bytes
        out.append(ln)
    return out


def tunnel_key(ev_scn, stage):
    fs = ev_scn["frames"]
    feats = []
    if ev_scn.get("start"): feats.append("talker-counter-preset")
    if len(fs) > 100: feats.append("long-run")
    elif len(fs) > 8: feats.append("full-size-packet")
    if any(f["rtr"] for f in fs): feats.append("rtr")
    if any(f["esi"] for f in fs): feats.append("esi")
    if any(f["eff"] and from64([0] * 4 + f["id"]) <= 0x7FF for f in fs): feats.append("eff-with-11bit-id")
    if ev_scn["count"] > 1 and len(set((f["brs"], f["esi"]) for f in fs)) > 1: feats.append("mixed-fd-flags")
    return "tunnel stage=%s %s" % (stage, "+".join(feats) if feats else "plain")


@check("C19")
def c19(v, tier, seed):
    import xprog
    rnd = random.Random(seed)
    wd = workdir()
    q = tier == "quick"
    talker = xprog.build_xh(wd, "can-talker"); listener = xprog.build_xh(wd, "can-listener")
    modes = [(t, u, f, c) for t in (0, 1) for u in (0, 1) for f in (0, 1) for c in ((1, 2) if q else (1, 2, 3))]
    # packets filled up to the 1500-byte limit of the example programs (and just below): one prescribed scenario each
    caps = {}
    for t in (0, 1):
        for u in (0, 1):
            for f in (0, 1):
                for target in ((1500, 1496) if q else (1500, 1496, 1492, 1480)):
                    cl = capacity_lens(t, u, f, target)
                    caps[(t, u, f, len(cl) + 1000 * (1500 - target))] = cl
    # long runs of one talker process: 300 (thorough: 1100) packets of constant size, so that the 8-bit sequence number wraps
    soaks = {}
    for t in (0, 1):
        for u in (0, 1):
            for f in (0, 1):
                soaks[(t, u, f, 90001 + (0 if q else 1))] = [8, 8, 8] if not f else [12, 12]
    modes += list(caps) + list(soaks)
    total = 0
    shard_jobs = []
    import concurrent.futures as cf, threading
    lock = threading.Lock()
    def run_mode(mode):
        (tscf, udp, fd, count) = mode
        if mode in soaks:
            npk = 300 if q else 1100
            res = run_tlc("GenTunnel", tunnel_cfg(tscf, udp, fd, 1, npackets=npk, lens=[0], caplens=soaks[mode]), wd, workers=1, heap="3g")
            with lock: v.add_tlc("GenTunnel tscf=%d udp=%d fd=%d run of %d packets" % (tscf, udp, fd, npk), res)
            if not res.ok: raise Infra("CanTunnel reference machine not transparent:\n" + (res.violation or "")[-1200:])
            return run_scenarios((tscf, udp, fd, 1), res.emitted, " run=%d" % npk)
        if mode in caps:
            count = count % 1000
            res = run_tlc("GenTunnel", tunnel_cfg(tscf, udp, fd, count, npackets=1, lens=[0], caplens=caps[mode]), wd, workers=1, heap="3g")
            with lock: v.add_tlc("GenTunnel tscf=%d udp=%d fd=%d full-size packet of %d frames" % (tscf, udp, fd, count), res)
            if not res.ok: raise Infra("CanTunnel reference machine not transparent:\n" + (res.violation or "")[-1200:])
            return run_scenarios((tscf, udp, fd, count), res.emitted, " packet=%d" % (1500 - mode[3] // 1000))
        lens = ([0, 3, 8] if q else [0, 1, 3, 4, 8]) if not fd else ([0, 12, 64] if q else [0, 1, 8, 12, 63, 64])
        if count == 3: lens = lens[:2]
        if count == 2 and not q: lens = lens[:3]
        res = run_tlc("GenTunnel", tunnel_cfg(tscf, udp, fd, count, npackets=1, lens=lens), wd, workers=2, heap="3g")
        with lock: v.add_tlc("GenTunnel tscf=%d udp=%d fd=%d count=%d" % (tscf, udp, fd, count), res)
        if not res.ok: raise Infra("CanTunnel reference machine not transparent:\n" + (res.violation or "")[-1200:])
        scns = res.emitted
        if count == 1:
            # the talker keeps running: two consecutive packets from one talker process
            res2 = run_tlc("GenTunnel", tunnel_cfg(tscf, udp, fd, count, npackets=2, lens=lens[:2] if q else lens[:3]), wd, workers=2, heap="3g")
            with lock: v.add_tlc("GenTunnel tscf=%d udp=%d fd=%d count=1 packets=2" % (tscf, udp, fd), res2)
            if not res2.ok: raise Infra("CanTunnel reference machine not transparent:\n" + (res2.violation or "")[-1200:])
            extra = res2.emitted
            if len(extra) > (150 if q else 1500): extra = random.Random(seed + 77).sample(extra, 150 if q else 1500)
            scns = scns + extra
        rr = random.Random(seed * 1000 + tscf * 8 + udp * 4 + fd * 2 + count)
        if q and len(scns) > 400:
            scns = rr.sample(scns, 400)
        return run_scenarios(mode, scns)
    def run_scenarios(mode, scns, label=""):
        (tscf, udp, fd, count) = mode
        tl = ["T %d %d %d %d %s" % (tscf, udp, fd, count, " ".join(xprog.frame_bytes(f, fd).hex() for f in s["frames"])) for s in scns]
        tres, _ = xprog.run_xh(talker, tl)
        ll, meta = [], []
        for s, r in zip(scns, tres):
            pk = [p for seg in r["outs"] for p in seg]
            npk = len(s["frames"]) // count
            if r["status"] != "ok" or len(pk) != npk:
                with lock: v.violation(tunnel_key(s, "talker-run"), "talker did not produce exactly %d packet(s) (%s, %d packets) for %s" % (npk, r["status"], len(pk), json.dumps(s)[:300]), {"scenario": s})
                continue
            ll.append("L %d %d 0 %s" % (udp, fd, " ".join(pk))); meta.append((s, pk))
        # ... and the same runs from a talker that has been running for a while: its packet counter (UDP encapsulation sequence number,
        # 8-bit control-header sequence number) starts at `start` instead of 0.  Numbered() says how such a talker numbers these packets,
        # so the recorded packets are renumbered accordingly; the family of counters: wrap-arounds, sign bit, and words that look like
        # the first quadlet of each header the receive path parses (subtype byte, a data length that matches this very datagram)
        if not label:
            pick = list(zip(scns, tres)); rr_ = random.Random(len(scns) * 31 + tscf * 8 + udp * 4 + fd)
            if len(pick) > (120 if q else 1500): pick = rr_.sample(pick, 120 if q else 1500)
            for i_, (s, r) in enumerate(pick):
                pk = [p for seg in r["outs"] for p in seg]
                if r["status"] != "ok" or len(pk) != len(s["frames"]) // count: continue
                L = len(pk[0]) // 2
                b1 = int(pk[0][10:12], 16) if udp and L >= 6 else 0
                fam = [0xFFFFFFFF, 0xFF, 0x7FFFFFFF, 0x80000000,
                       (0x82 << 24) | ((b1 & 0xF8) | (((L - 12) >> 8) & 7)) << 16 | ((L - 12) & 0xFF) << 8,          # an NTSCF header announcing the rest of this datagram
                       (0x82 << 24) | ((b1 & 0xF8) | (((L - 16) >> 8) & 7)) << 16 | ((L - 16) & 0xFF) << 8 | 0xFF,   # ... the real header's own length; low byte wraps
                       (0x05 << 24) | 0x800000 | 0xFE, (0x02 << 24) | 0x81, 0x00FFFFFF] if udp else [0xFF, 0x80, 0xFE]
                st_ = fam[i_ % len(fam)]
                npk_ = []
                for j_, p_ in enumerate(pk):
                    b = bytearray.fromhex(p_); k_ = (st_ + j_) & 0xFFFFFFFF
                    if udp: b[0:4] = k_.to_bytes(4, "big")
                    b[(4 if udp else 0) + (2 if tscf else 3)] = k_ & 0xFF
                    npk_.append(b.hex())
                s2 = dict(s, start=list(st_.to_bytes(4, "big")))
                ll.append("L %d %d 0 %s" % (udp, fd, " ".join(npk_))); meta.append((s2, npk_))
        lres, _ = xprog.run_xh(listener, ll) if ll else ([], "")
        evs = []
        for (s, pk), r in zip(meta, lres):
            if r["status"] != "ok" or len(r["outs"]) < len(pk):
                with lock: v.violation(tunnel_key(s, "listener-run"), "listener %s on the talker's packet(s) for %s" % (r["status"], json.dumps(s)[:300]), {"scenario": s, "packet": pk})
                continue
            evs.append(dict({"e": "reset", "scn": s}, **({"start": s["start"]} if "start" in s else {})))
            for i, p_ in enumerate(pk):
                for f in s["frames"][i * count:(i + 1) * count]: evs.append({"e": "read", "frame": f})
                evs.append({"e": "send", "packet": unhexs(p_)})
            for i, p_ in enumerate(pk):
                frames_out = [xprog.frame_parse(bytes.fromhex(x), fd) for x in r["outs"][i]]
                evs.append({"e": "deliver", "packet": unhexs(p_), "frames": frames_out})
        return mode, evs, scns, label
    with cf.ThreadPoolExecutor(max_workers=8) as pool:
        for mode, evs, scns, label in pool.map(run_mode, modes):
            total += len(scns)
            shard_jobs.append((mode, evs, label))
            if scns and mode == modes[0]: v.sample({"scenario": scns[0]})
    # validate every mode's recorded runs with TunnelTrace (constants = the mode)
    def resume(evs, idx):
        for j in range(idx + 1, len(evs)):
            if evs[j]["e"] == "reset": return j
        return None
    def keyfn_for(evs):
        def k(ev, evs_=None, i=None):
            if i is None: i = evs.index(ev)
            j = max(x for x in range(i + 1) if evs[x]["e"] == "reset")
            return tunnel_key(evs[j]["scn"], {"send": "talker-packet", "deliver": "listener-output"}.get(ev["e"], ev["e"]))
        return k
    def validate_mode(job):
        mode, evs, label = job
        if not evs: return
        parts = pdu.shard_by(evs, lambda e: e["e"] == "reset", 2 if q else 4)
        for pi, part in enumerate(parts):
            vv = Verdict("C19", tier, seed, "model_checking")      # collect per thread, merge under the lock
            pdu.validate_events(vv, wd, [part], "C19", ("tunnel tscf=%d udp=%d fd=%d count=%d" % mode) + label + (" part=%d" % pi), module="TunnelTrace",
                                cfg=tunnel_cfg(*mode), keyfn=keyfn_for(part), resume=resume, max_resume=4)
            with lock:
                for k_, d_, r_ in vv.violations: v.violation(k_, d_, r_)
                for k_, t_ in vv.known: v.known.append((k_, t_))
                v.cov["states"] += vv.cov["states"]; v.cov["transitions"] += vv.cov["transitions"]
                v.cov["traces_validated_against_impl"] += vv.cov["traces_validated_against_impl"]; v.cov["tlc_runs"] += vv.cov["tlc_runs"]
    with cf.ThreadPoolExecutor(max_workers=8) as pool:
        list(pool.map(validate_mode, shard_jobs))
    v.cov["evaluations"] += total
    v.cov["rule"] = ("TLC enumerates every sequence of Count frames over the alphabet {5 identifier/EFF classes} x RTR (classic) or BRS x ESI (FD) x lengths, for "
                     "TSCF/NTSCF x UDP/raw x classic/FD x 1..3 frames per packet (RefTransparent on the model); each scenario is pushed through the real example talker "
                     "(read/sendto intercepted) and the packet through the real listener; the recorded run is validated by TunnelTrace (Decode of the packet = frames read, "
                     "control-header length = bytes of the ACF messages, frames written = Decode, outq prefix of inq)")
    v.cov["distinct_nontrivial"] = total


LISTENERS = {"can": "can-listener", "cvf": "cvf-listener", "aaf": "aaf-listener", "crf": "crf-listener", "hello": "hello-listener", "vss": "vss-listener"}

def listener_queues(v, wd, pid, seed, q, exes=None):
    """Growth beyond the listed properties (anchors of C18): the AAF and CVF listeners as queue machines (StreamListener.tla).
    TLC generates behaviours (datagrams with one deviation each x sequence numbers, interleaved with timer expirations); each is
    run through the real new_packet()/timeout() (recv, the timerfd read and stdout intercepted); the recorded run - return values,
    sequence-mismatch diagnostics, bytes presented - must be a behaviour of StreamListener (FIFO, exactly once, counter updates)."""
    import xprog
    for kind in ("aaf", "cvf"):
        exe = (exes or {}).get(kind) or xprog.build_xh(wd, LISTENERS[kind], sanitize=True)
        scns = []
        for nm, depth, sim in (("bfs", 2, None), ("simulate", 24 if q else 60, "num=%d" % (4 if q else 60))):
            cfg = ('SPECIFICATION GSpec\nCONSTANTS\n  Buf = {1}\n  Kind = "%s"\n  Depth = %d\n  Rand = %s\n  NowNsec = %d\nCONSTRAINT EmitScn\nINVARIANT Fifo\nINVARIANT Ordered\nCHECK_DEADLOCK FALSE\n'
                   % (kind, depth, "TRUE" if sim else "FALSE", ((395812103 << 32) % 10 ** 9)))
            res = run_tlc("GenListener", cfg, wd, simulate=sim, extra_args=(["-seed", str(seed)] if sim else []), timeout=900)
            v.add_tlc("GenListener/%s/%s" % (kind, nm), res)
            if not res.ok: raise Infra("StreamListener violates Fifo/Ordered: " + (res.violation or "")[-800:])
            em = res.emitted
            if q and not sim and len(em) > 700: em = random.Random(seed + 5).sample(em, 700)
            scns += em
        # end to end: the packets of the real example talker (300 / 2000 of them, so the sequence number wraps) through the real
        # listener, timer expirations lagging behind by a random number of packets
        texe = xprog.build_xh(wd, kind + "-talker")
        rt = random.Random(seed + 11)
        if kind == "aaf":
            npk = 300 if q else 2000
            tin = [[rt.randrange(256) for _ in range(4)] for _ in range(npk)]
            tl = "T 0 0 0 %d %s" % (npk, " ".join(hexs(c_) for c_ in tin))
        else:
            units = [[0, 0, 0, 1] + [rt.randrange(1, 256) for _ in range(rt.choice((1, 2, 5, 40, 300, 1390)))] for _ in range(60 if q else 400)]
            flat = [b for u in units for b in u]
            tin = [flat[i:i + 997] for i in range(0, len(flat), 997)]
            if len(tin) > 1 and len(tin[-1]) < 3: tin[-2] += tin[-1]; tin.pop()
            tl = "T 0 0 0 100000 " + " ".join(hexs(c_) for c_ in tin)
        tres, _ = xprog.run_xh(texe, [tl])
        tpk = [x for seg in tres[0]["outs"] for x in seg if not x.startswith("i")] if tres[0]["status"] == "ok" else []
        if not tpk:
            v.violation("stream-tunnel=%s outcome=talker-%s" % (kind, tres[0]["status"].split(":")[0]), "%s talker produced no packets (%s)" % (kind, tres[0]["status"]), {})
        else:
            th, pend = [], 0
            for x in tpk:
                th.append({"a": "packet", "bytes": unhexs(x)}); pend += 1
                while pend and rt.random() < 0.6: th.append({"a": "timeout", "bytes": []}); pend -= 1
            th += [{"a": "timeout", "bytes": []}] * pend
            scns.append({"kind": kind, "hist": th, "tunnel": True, "input": tin})
        lines = ["L 0 0 1 " + " ".join(hexs(a["bytes"]) if a["a"] == "packet" else "-" for a in s["hist"]) for s in scns]
        obs, err = xprog.run_xh(exe, lines)
        evs = []
        for s, o in zip(scns, obs):
            if o["status"] != "ok" or o["done"] != len(s["hist"]):
                at = s["hist"][o["done"]]["a"] if o["done"] < len(s["hist"]) else "?"
                # timer expirations are scheduled from the MODEL's queue: if the program legitimately queued less (another truncation rule),
                # timeout() is called in a state the real program never calls it in - that is a deviation from the growth specification
                rep_ = v.violation if at == "timeout" else v.hard_violation
                rep_("listener-queue=%s outcome=%s%s" % (kind, o["status"].split(":")[0] if o["status"] != "ok" else "stuck", " at=timer-step" if at == "timeout" else ""),
                     "%s listener %s after %d of %d steps of a generated behaviour (step %d is a %s step)" % (kind, o["status"], o["done"], len(s["hist"]), o["done"], at), {"scenario": s}); continue
            if any(r_ < 0 for r_ in o["rets"]):       # the main loop of the listener ends on a negative return: it cannot process the next datagram
                k_ = next(i for i, r_ in enumerate(o["rets"]) if r_ < 0)
                v.hard_violation("listener-queue=%s outcome=listener-terminates" % kind, "%s listener: step %d of a generated behaviour (%s) returns %d - the listener's main loop ends" % (
                                 kind, k_, s["hist"][k_]["a"], o["rets"][k_]), {"scenario": {"kind": kind, "hist": s["hist"][:k_ + 1]}})
            evs.append({"e": "reset"})
            for a, ret, seg in zip(s["hist"], o["rets"], o["outs"] + [[]] * len(s["hist"])):
                if a["a"] == "packet":
                    e_ = [x for x in seg if x.startswith("E")]
                    evs.append({"e": "packet", "bytes": a["bytes"], "ret": ret, "seqmsg": int(e_[0][1:]) if e_ else 0})
                else:
                    w = [x for x in seg if not x.startswith("E")]
                    evs.append({"e": "timeout", "out": unhexs("".join(w)), "ret": ret})
            if s.get("tunnel") and kind == "aaf":
                # the audio the talker read is the audio the listener presents, byte for byte
                outb = [b for seg in o["outs"] for x in seg if not x.startswith("E") for b in unhexs(x)]
                inb = [b for c_ in s["input"] for b in c_]
                if outb != inb:
                    k_ = next((i for i, (a_, b_) in enumerate(zip(outb, inb)) if a_ != b_), min(len(outb), len(inb)))
                    v.violation("stream-tunnel=aaf outcome=not-transparent", "aaf talker -> listener: %d bytes in, %d bytes out, first difference at byte %d" % (len(inb), len(outb), k_),
                                {"input_head": inb[:64], "output_head": outb[:64]})
                v.cov["stream_tunnel_aaf_bytes"] = len(inb)
        v.cov["evaluations"] += len(lines)
        v.cov.setdefault("listener_queue_behaviours", 0); v.cov["listener_queue_behaviours"] += len(scns)
        cfgt = 'SPECIFICATION TSpec\nCONSTANTS\n  Buf = {1}\n  Kind = "%s"\nINVARIANT Fifo\nINVARIANT Ordered\nPOSTCONDITION TraceAccepted\nCHECK_DEADLOCK FALSE\n' % kind
        def resume(es, idx):
            for j in range(idx + 1, len(es)):
                if es[j]["e"] == "reset": return j
            return None
        def keyfn(ev, es=None, i=None):
            return "listener-queue=%s event=%s" % (kind, ev["e"])
        pdu.validate_events(v, wd, pdu.shard_by(evs, lambda e: e["e"] == "reset", 4), pid, "listener-queue-" + kind, module="ListenerQueueTrace", cfg=cfgt,
                            keyfn=keyfn, resume=resume, max_resume=4)
        if evs: v.sample({"listener_queue_event": {k: (x if not isinstance(x, list) or len(x) < 40 else x[:40]) for k, x in evs[1].items()}})


def hello_text(v, wd, pid, seed, q, exe=None):
    """Growth (anchors of C18): the hello-world listener as a function datagram -> printed text (TextListener.tla).  The datagram
    grammar of DatagramGen, seeded bit-flips of well-formed datagrams and the packets of the real hello-world talker are handed to the
    real listener loop (recv and stdout intercepted); what it prints per datagram is validated by TextTrace."""
    import xprog
    rnd = random.Random(seed + 3)
    exe = exe or xprog.build_xh(wd, LISTENERS["hello"], sanitize=True)
    cfg = 'SPECIFICATION Spec\nCONSTANTS\n  Buf = {1}\n  Listener = "hello"\nCONSTRAINT Emit\nINVARIANT Sane\nCHECK_DEADLOCK FALSE\n'
    res = run_tlc("DatagramGen", cfg, wd, workers=4)
    v.add_tlc("DatagramGen/hello (text)", res)
    if not res.ok: raise Infra("DatagramGen: " + (res.violation or "")[-800:])
    per_mode = {0: [], 1: []}
    for cse in res.emitted: per_mode[cse["m0"]].append(cse["bytes"])
    texe = xprog.build_xh(wd, "hello-talker")
    for tscf in (0, 1):
        for udp in (0, 1):
            tres, _ = xprog.run_xh(texe, ["T %d %d 0 %d" % (tscf, udp, 12 if q else 300)])
            if tres[0]["status"] == "ok":
                per_mode[udp] += [unhexs(x) for seg in tres[0]["outs"] for x in seg if not x.startswith("i")]
    for udp in (0, 1):
        goods = list(per_mode[udp])
        for _ in range(150 if q else 3000):
            b = list(rnd.choice(goods))
            for _ in range(rnd.randrange(1, 4)):
                if b: b[rnd.randrange(len(b))] ^= 1 << rnd.randrange(8)
            if len(b) > 17 and b[16:18] != [0, 0] and rnd.random() < 0.5: pass
            per_mode[udp].append(b)
    for udp in (0, 1):
        dgs = [d for d in per_mode[udp]]
        # message ids are printed in decimal: keep those the 32-bit integers of TLC can express (the talker counts from 0)
        lines = ["L %d 0 1 %s" % (udp, " ".join(hexs(d) if d else "00" for d in dgs[i:i + 200])) for i in range(0, len(dgs), 200)]
        groups = [dgs[i:i + 200] for i in range(0, len(dgs), 200)]
        obs, _ = xprog.run_xh(exe, lines)
        evs = []
        for g, o in zip(groups, obs):
            if o["status"] != "ok" or o["done"] < len(g):
                v.hard_violation("hello-text outcome=%s" % (o["status"].split(":")[0] if o["status"] != "ok" else "stuck"), "hello-world listener %s after %d of %d datagrams" % (o["status"], o["done"], len(g)), {}); continue
            evs.append({"e": "reset"})
            for d, seg in zip(g, o["outs"] + [[]] * len(g)):
                evs.append({"e": "dgram", "bytes": d if d else [0], "out": unhexs("".join(seg))})
        v.cov["evaluations"] += len(dgs)
        cfgt = "SPECIFICATION TSpec\nCONSTANTS\n  Buf = {1}\n  Udp = %d\nPOSTCONDITION TraceAccepted\nCHECK_DEADLOCK FALSE\n" % udp
        pdu.validate_events(v, wd, pdu.shard_by(evs, lambda e: e["e"] == "reset", 4), pid, "hello-text-udp%d" % udp, module="TextTrace", cfg=cfgt,
                            keyfn=lambda e, a=None, b=None: "hello-text event=%s printed-text-differs" % e["e"])
        printed = [e for e in evs if e["e"] == "dgram" and e["out"]]
        v.cov.setdefault("hello_text", {})["udp=%d" % udp] = {"datagrams": len(dgs), "printing": len(printed)}
        if printed: v.sample({"hello_text_event": {"out": bytes(printed[0]["out"]).decode("latin1"), "bytes": printed[0]["bytes"][:48]}})


@check("C18", "exploration")
def c18(v, tier, seed):
    import xprog, concurrent.futures as cf
    rnd = random.Random(seed)
    wd = workdir()
    q = tier == "quick"
    with cf.ThreadPoolExecutor(max_workers=6) as pool:
        exes = dict(zip(LISTENERS, pool.map(lambda k: xprog.build_xh(wd, LISTENERS[k], sanitize=True), LISTENERS)))
    all_events = []
    ncases = 0
    for lk in LISTENERS:
        cfg = 'SPECIFICATION Spec\nCONSTANTS\n  Buf = {1}\n  Listener = "%s"\nCONSTRAINT Emit\nINVARIANT Sane\nCHECK_DEADLOCK FALSE\n' % lk
        res = run_tlc("DatagramGen", cfg, wd, workers=8)
        v.add_tlc("DatagramGen/" + lk, res)
        if not res.ok: raise Infra("DatagramGen: " + (res.violation or "")[-800:])
        seen, cases = set(), []
        for cse in res.emitted:
            k = (cse["class"], cse["m0"], cse["m1"], tuple(cse["bytes"]))
            if k not in seen: seen.add(k); cases.append(cse)
        goods = {}
        for cse in cases:
            if cse["class"].startswith("good"): goods.setdefault((cse["m0"], cse["m1"]), cse)
        # random datagrams (seeded): arbitrary bytes and bit-flipped well-formed ones
        nf = 60 if q else 6000
        for i in range(nf):
            m0, m1 = rnd.choice(list(goods.keys()))
            if rnd.random() < 0.5:
                b = [rnd.randrange(256) for _ in range(rnd.choice((0, 1, 4, 11, 12, 16, 28, 40, 68, 200, 1500, rnd.randrange(0, 1500))))]
                cl = "random-bytes"
            else:
                b = list(goods[(m0, m1)]["bytes"])
                for _ in range(rnd.randrange(1, 6)):
                    if b: b[rnd.randrange(len(b))] ^= 1 << rnd.randrange(8)
                cl = "bitflip"
            cases.append({"class": cl, "m0": m0, "m1": m1, "m2": 0, "bytes": b})
        ncases += len(cases)
        lines, meta = [], []
        # the listeners that are run through their own main loop (hello-world, ACF-VSS) in text mode: what they print per datagram is
        # captured, so that "still able to process the next datagram" is observable (output present where it is present alone)
        tm = 1 if lk in ("hello", "vss") else 0
        for (m0, m1), g in goods.items():
            lines.append("L %d %d %d %s" % (m0, m1, tm, hexs(g["bytes"]))); meta.append(("alone", g, None))
        for cse in cases:
            g = goods.get((cse["m0"], cse["m1"]))
            lines.append("L %d %d %d %s" % (cse["m0"], cse["m1"], tm, hexs(cse["bytes"]))); meta.append(("single", cse, g))
            # the same datagram with the listener started from an interactive terminal (isatty() true for stdin/stdout): what surrounds
            # the process is not part of "whatever datagram arrives"
            lines.append("L %d %d 3 %s" % (cse["m0"], cse["m1"], hexs(cse["bytes"]))); meta.append(("single-tty", dict(cse, **{"class": cse["class"] + "@terminal"}), g))
            if g is not None and not cse["class"].startswith("good"):
                lines.append("L %d %d %d %s %s" % (cse["m0"], cse["m1"], tm, hexs(cse["bytes"]), hexs(g["bytes"]))); meta.append(("then-good", cse, g))
        # soak: a long run of one well-formed datagram in one process with a 1 MiB stack (per-datagram resource growth)
        nsoak = (2500 if q else 8000) if lk != "crf" else 12       # (the media clock search of the crf listener takes ~0.7 s per AAF datagram)
        for cse in [c_ for c_ in cases if c_["class"].startswith("good")]:
            g = goods.get((cse["m0"], cse["m1"]))
            lines.append("L %d %d 2 %s *%d %s" % (cse["m0"], cse["m1"], hexs(cse["bytes"]), nsoak, hexs(g["bytes"]))); meta.append(("soak", cse, g))
        obs, err = xprog.run_xh(exes[lk], lines)
        chunks = err.split("##CMD ")
        rep_by_cmd = {}
        for ch in chunks[1:]:
            num, _, body = ch.partition("\n")
            m = re.search(r"(?:ERROR: AddressSanitizer: |runtime error: )([^\n]*)", body)
            fr = re.findall(r"#\d+ 0x[0-9a-f]+ in (\w+) ([^\s:]+):(\d+)", body)
            fr = [x for x in fr if "/harness/" not in x[1]] or fr
            if m: rep_by_cmd[int(num)] = "%s%s" % (m.group(1)[:90], (" in %s %s:%s" % (fr[0][0], os.path.basename(fr[0][1]), fr[0][2])) if fr else "")
        if lk == "can":
            # functional model of the listener: what it forwards for ANY of these datagrams (CanListener.tla)
            import listeners
            can_obs = [(cse["m0"], cse["m1"], [cse["bytes"]] + ([g["bytes"]] if kind == "then-good" else []), o)
                       for (kind, cse, g), o in zip(meta, obs) if kind in ("alone", "single", "then-good")]
            with v.growth_scope("CanListener.tla (what the ACF-CAN listener forwards for any datagram)"):
                listeners.can_listener_function(v, wd, "C18", can_obs, q)
        def lastseg(o):
            # the digest closes the segment of every datagram with a separator: the segment of the last datagram is the last non-trailing one
            segs = o["outs"]
            if segs and not segs[-1] and len(segs) > 1: segs = segs[:-1]
            return segs[-1:]
        alone = {}
        for (kind, cse, g), o in zip(meta, obs):
            if kind == "alone":
                alone[(cse["m0"], cse["m1"])] = {"ret": o["rets"][-1:] if o["rets"] else [], "out": lastseg(o) if o["outs"] else []}
        for ci, ((kind, cse, g), o) in enumerate(zip(meta, obs)):
            n = 2 if kind == "then-good" else (nsoak + 1 if kind == "soak" else 1)
            last = {"ret": o["rets"][-1:] if (o["rets"] and o["done"] == n) else [], "out": lastseg(o) if (o["outs"] and o["done"] == n) else []}
            if lk == "crf":         # the media-clock recovery is stateful by design: only survival is required of the next datagram
                last = {"ret": [], "out": []}
            ev = {"e": "seq", "listener": lk, "classes": [cse["class"] + ("-x%d" % nsoak if kind == "soak" else "")] + (["good"] if kind in ("then-good", "soak") else []), "mode": [cse["m0"], cse["m1"]],
                  "n": n, "status": o["status"], "done": o["done"], "lastgood": 1 if kind in ("then-good", "soak") else 0,
                  # the main loops of these four listeners end when the handler returns a negative value
                  "fatal": 1 if (lk in ("can", "cvf", "aaf", "crf") and any(r_ < 0 for r_ in o["rets"])) else 0,
                  "last": last, "alone": alone.get((cse["m0"], cse["m1"]), {"ret": [], "out": []}) if lk != "crf" else {"ret": [], "out": []},
                  "bytes": hexs(cse["bytes"])[:3200]}
            ev["lo"] = 1 if any(seg_ for seg_ in ev["last"]["out"]) else 0
            ev["ao"] = 1 if any(seg_ for seg_ in ev["alone"]["out"]) else 0
            if kind == "soak" and tm: ev["ao"] = 0; ev["alone"] = dict(ev["alone"], out=[]); ev["last"] = dict(ev["last"], out=[])   # soak runs do not capture the text
            if kind == "alone": ev["lastgood"] = 0
            if ev["lastgood"] and lk != "can" and o["status"] == "ok" and ev["last"] != ev["alone"] and ev["last"]["ret"] == ev["alone"]["ret"] and (ev["lo"] or not ev["ao"]):
                with v.growth_scope("SameAsAlone (a text-printing listener prints the same text for a datagram whatever came before)"):
                    v.violation("listener=%s class=%s+good output-text-differs" % (lk, ev["classes"][0]), "the well-formed datagram is handled, but the printed text differs from the text printed when it is delivered alone", {"event": ev})
            if o["status"] != "ok":
                ev["report"] = rep_by_cmd.get(ci, "")
            all_events.append(ev)
    v.cov["evaluations"] += len(all_events)
    cfgt = open(os.path.join(SPEC, "ListenerTrace.cfg")).read()
    def keyfn(ev, evs=None, idx=None):
        why = ev["status"].split(":")[0] if ev["status"] != "ok" else ("listener-terminates" if ev.get("fatal") else ("stuck" if ev["done"] != ev["n"] else "next-datagram-differs"))
        return "listener=%s class=%s%s outcome=%s" % (ev["listener"], ev["classes"][0], "+good" if ev["lastgood"] else "", why)
    # group the events so that one rejection does not hide the others of the same kind: validate per listener
    for lk in LISTENERS:
        evs = [e for e in all_events if e["listener"] == lk]
        # one representative per key is enough to report; validate all, resuming after each rejection (bounded)
        pdu.validate_events(v, wd, pdu.shard(evs, 4), "C18", "listener-" + lk, module="ListenerTrace", cfg=cfgt, keyfn=keyfn)
    # whatever the bounded resume did not reach is classified directly by the same rule (Safe), so no case is left unexamined
    for ev in all_events:
        usable = ev["lastgood"] == 0 or (ev["last"]["ret"] == ev["alone"]["ret"] and (ev["lo"] or not ev["ao"]) and (ev["listener"] != "can" or ev["last"] == ev["alone"]))
        if not (ev["status"] == "ok" and not ev.get("fatal") and ev["done"] == ev["n"] and usable):
            v.violation(keyfn(ev), "%s listener, datagram class %s (mode %s)%s: %s after %d of %d datagrams %s; datagram %s" % (
                ev["listener"], ev["classes"][0], ev["mode"], " followed by the well-formed datagram" if ev["lastgood"] else "", ev["status"], ev["done"], ev["n"],
                ev.get("report", ""), ev["bytes"][:160]), {"event": ev})
    v.sample({"observation": {k: all_events[0][k] for k in ("listener", "classes", "mode", "n", "status", "done")}})
    with v.growth_scope("StreamListener.tla (AAF / CVF listeners as queue machines)"):
        listener_queues(v, wd, "C18", seed, q, exes)
    with v.growth_scope("TextListener.tla (what the hello-world listener prints)"):
        hello_text(v, wd, "C18", seed, q, exes.get("hello"))
    v.cov["distinct_nontrivial"] = ncases
    v.cov["rule"] = ("TLC enumerates the datagram grammar of DatagramGen per listener and mode (length fields 0 / off by one unit / maximum / beyond the datagram, zero-length "
                     "and over-long ACF messages, wrong types, each validity field wrong, truncation at every structural boundary +-1, over-long datagrams, unterminated strings) "
                     "plus seeded random and bit-flipped datagrams; each case is delivered alone and followed by the well-formed datagram to the real receive path compiled "
                     "under ASan+UBSan with pattern-initialised locals, in a watchdog-guarded child; observations are validated by ListenerTrace (Safe)")


@check("C20")
def c20(v, tier, seed):
    import headers, itertools, concurrent.futures as cf
    wd = workdir()
    q = tier == "quick"
    facts = headers.scan_headers()
    hdrs = list(facts)
    fp = os.path.join(wd, "facts.ndjson")
    with open(fp, "w") as f:
        for h in hdrs:
            for x in facts[h]:
                f.write(json.dumps({k: x.get(k, "") for k in ("h", "kind", "name", "body")}) + "\n")
    # (1) the model: every ordered pair (triples in the thorough tier)
    model = {}
    for depth in (1, 2, 3):
        res = run_tlc("Headers", "SPECIFICATION Spec\nCONSTANT Depth = %d\nCONSTRAINT Emit\nCHECK_DEADLOCK FALSE\n" % depth, wd, env={"FACTS": fp}, heap="12g", timeout=2400)
        v.add_tlc("Headers depth %d" % depth, res)
        if not res.ok: raise Infra("Headers model failed: " + (res.violation or "")[-800:])
        for e in res.emitted: model[tuple(e["order"])] = e["bad"]
    v.cov["model_alone_conflicts"] = {o[0]: sorted(set(b["name"] for b in bad)) for o, bad in model.items() if len(o) == 1 and bad}
    # (2) the compiler: meanings alone, then every ordered tuple as C99 and C++
    alone = headers.alone_values(wd, facts)
    headers.PLAIN_FUNCS = headers.plain_functions(facts)
    # what the declarations of a function promise the compiler (attributes accumulate over all declarations of a translation unit)
    headers.ATTR_FACTS = {h: headers.attr_masks(wd, h, fns) for h, fns in headers.PLAIN_FUNCS.items()}
    v.cov["function_declaration_promises_pinned"] = sum(len(x) for x in headers.ATTR_FACTS.values())
    v.cov["public_functions_that_must_stay_functions"] = sum(len(x) for x in headers.PLAIN_FUNCS.values())
    v.cov["public_constants_and_layout_facts"] = sum(len(x) for x in alone.values())
    orders = list(itertools.permutations(hdrs, 2)) + list(itertools.permutations(hdrs, 3))
    if not q:
        # quadruples: those the model singles out (a conflict no contained triple has) and a seeded sample of the rest
        rq = random.Random(seed)
        allq = list(itertools.permutations(hdrs, 4))
        orders += rq.sample(allq, min(len(allq), 40000))
    orders += [tuple(hdrs), tuple(reversed(hdrs))]
    jobs = [(o, lang) for o in orders for lang in ("c", "c++")]
    def one(job):
        o, lang = job
        ok, errs = headers.compile_tuple(wd, list(o), alone, lang)
        return job, ok, headers.classify(errs)
    with cf.ThreadPoolExecutor(max_workers=NCPU) as pool:
        results = list(pool.map(one, jobs, chunksize=8))
    v.cov["evaluations"] += len(jobs)
    def common_prefix(names):
        names = sorted(names)
        if not names: return "?"
        if len(names) == 1: return names[0]
        p = os.path.commonprefix(names)
        return (p + "*") if len(p) >= 6 else ",".join(names[:4])
    agree = disagree = 0
    reported = set()
    # ordered sub-tuples (as subsequences) that already fail on their own: a longer tuple containing one is not reported again
    bad_sub = {"c": set(), "c++": set()}
    for (o, lang), ok, kinds in results:
        if not ok and len(o) <= 3: bad_sub[lang].add(tuple(o))
    for (o, lang), ok, kinds in results:
        mb = model.get(tuple(o))
        if mb is not None:
            if (len(mb) == 0) == ok: agree += 1
            else: disagree += 1
        if ok: continue
        # attribute the conflict to the smallest clashing pair inside the tuple (pairs are all checked themselves)
        if len(o) > 2:
            if any(sub in bad_sub[lang] for k_ in range(2, len(o)) for sub in itertools.combinations(o, k_)): continue
        names = []
        for k_ in kinds:
            m = re.search(r"(AVTP_\w+|Avtp_\w+|avtp_\w+|struct \w+|sizeof\([^)]*\)|offsetof\([^)]*\))", k_)
            if m: names.append(m.group(1))
        mnames = set(b["name"] for b in (mb or []))
        key = "headers=%s conflict=%s" % ("+".join(sorted(o)) if len(o) <= 3 else "all-%d-headers" % len(o), common_prefix(mnames if mnames else set(names)))
        if key in reported: continue
        reported.add(key)
        mpred = sorted(set((b["conflict"], b["name"]) for b in (mb or [])))[:6]
        v.violation(key, "including %s (as %s) does not compile cleanly or changes meanings: %s; model conflicts: %s" % (" then ".join(o) if len(o) <= 3 else "all headers", lang, "; ".join(kinds[:6]), mpred),
                    {"order": list(o), "lang": lang, "compiler": kinds[:20], "model": mpred})
    # model conflicts the compiler did not see (informational; the compiler is the oracle)
    v.cov["model_vs_compiler"] = {"agree": agree, "disagree": disagree}
    v.sample({"order": list(orders[0]), "model_conflicts": model.get(tuple(orders[0]), []), "compiler": "ok" if results[0][1] else results[0][2][:3]})
    v.cov["distinct_nontrivial"] = len(orders)
    v.cov["exhaustive"] = True
    v.cov["rule"] = ("declaration facts (incl. uses of public macros) scanned from the 26 public headers of the current tree; TLC explores every ordered %s of top-level includes in the Headers model "
                     "(macro / identifier / tag environments, #pragma pack depth) and prints the predicted conflicts; every ordered pair%s and the all-headers unit in both orders "
                     "is compiled as C99 and C++ with static assertions on %d public constants, sizes and member offsets (their stand-alone values)" % (
                         "pair and triple", " and triple" + ("" if q else " and 40000 sampled quadruples"), v.cov["public_constants_and_layout_facts"]))
    depth = 2 if q else 3
    v.assumptions.append("the compiler's verdict is the oracle; the model contributes the enumeration and the explanation (agreement counted in model_vs_compiler)")


def talker_streams(v, wd, pid, rnd, q):
    """Growth beyond the listed properties (anchors of C05): the example talkers' packet streams are
    recorded (sendto intercepted) and validated against the Talkers.tla stream machine."""
    import xprog, concurrent.futures as cf
    progs = [("aaf", "aaf-talker", [(0, 0)]), ("crf", "crf-talker", [(0, 0)]),
             ("hello", "hello-talker", [(0, 0), (0, 1), (1, 0), (1, 1)]), ("vss", "vss-talker", [(0, 0), (0, 1), (1, 0), (1, 1)])]
    npk = 300 if q else 2000
    jobs = []
    for prog, xname, modes in progs:
        exe = xprog.build_xh(wd, xname)
        for (tscf, udp) in modes:
            inputs = " ".join(hexs([rnd.randrange(256) for _ in range(4)]) for _ in range(npk)) if prog == "aaf" else ""
            res, _ = xprog.run_xh(exe, ["T %d %d 0 %d %s" % (tscf, udp, npk, inputs)])
            r = res[0]
            if r["status"] != "ok":
                v.violation("talker prog=%s outcome=%s" % (prog, r["status"].split(":")[0]), "%s talker %s after %d packets" % (prog, r["status"], r["done"]), {"prog": prog, "tscf": tscf, "udp": udp})
                continue
            evs = []
            for seg in r["outs"]:
                for x in seg:
                    if x.startswith("i"): evs.append({"e": "input", "bytes": unhexs(x[1:])})
                    else: evs.append({"e": "pkt", "bytes": unhexs(x)})
            jobs.append((prog, tscf, udp, evs))
    def one(job):
        prog, tscf, udp, evs = job
        cfg = "SPECIFICATION TSpec\nCONSTANTS\n  Buf = {1}\n  Prog = \"%s\"\n  Tscf = %d\n  Udp = %d\nPOSTCONDITION TraceAccepted\nCHECK_DEADLOCK FALSE\n" % (prog, tscf, udp)
        vv = Verdict(pid, "quick", 0, "model_checking")
        pdu.validate_events(vv, wd, [evs], pid, "talker-%s-tscf%d-udp%d" % (prog, tscf, udp), module="Talkers", cfg=cfg, independent=False,
                            keyfn=lambda e, evs_=None, i=None: "talker prog=%s tscf=%d udp=%d packet-not-reference-encoding" % (prog, tscf, udp))
        return vv
    with cf.ThreadPoolExecutor(max_workers=8) as pool:
        for vv in pool.map(one, jobs):
            for k_, d_, r_ in vv.violations: v.violation(k_, d_, r_)
            v.cov["states"] += vv.cov["states"]; v.cov["transitions"] += vv.cov["transitions"]
            v.cov["traces_validated_against_impl"] += vv.cov["traces_validated_against_impl"]; v.cov["tlc_runs"] += vv.cov["tlc_runs"]
    v.cov["talker_streams"] = ["%s tscf=%d udp=%d: %d events" % (p, t, u, len(e)) for p, t, u, e in jobs]
    if jobs: v.sample({"talker_packet": jobs[0][3][1] if len(jobs[0][3]) > 1 else jobs[0][3][0]})


def unit_test_traces(v, wd, pid):
    """Run the repository's own unit tests under an LD_PRELOAD interposer generated from the public headers;
    every outermost accessor call they make becomes a PduTrace event (the tests' executions must be behaviours
    of the specification, all invariants evaluated at every step)."""
    import subprocess, glob as _g
    ip = os.path.join(wd, "ipose")
    r = subprocess.run([sys.executable, os.path.join(HARNESS, "gen_interpose.py"), REPO, ip], capture_output=True, text=True)
    if r.returncode != 0: raise Infra("interposer generation failed: " + r.stderr[-1500:])
    objs = []
    for f in sorted(_g.glob(os.path.join(ip, "*.c"))):
        o = f[:-2] + ".o"
        rr = subprocess.run(["gcc", "-fPIC", "-O1", "-w", "-c", "-I" + os.path.join(REPO, "include"), f, "-o", o], capture_output=True, text=True)
        if rr.returncode != 0: raise CompileError("interposer does not compile against the headers: " + rr.stderr[-2000:])
        objs.append(o)
    so = os.path.join(ip, "libipose.so")
    rr = subprocess.run(["gcc", "-shared", "-o", so] + objs + ["-ldl"], capture_output=True, text=True)
    if rr.returncode != 0: raise Infra("interposer link failed: " + rr.stderr[-1000:])
    bdir = os.path.join(wd, "unit_build")
    rr = subprocess.run(["cmake", "-G", "Ninja", "-S", REPO, "-B", bdir, "-DUNIT_TESTING=on"], capture_output=True, text=True)
    if rr.returncode != 0: raise Infra("cmake configure of the repository failed: " + rr.stderr[-800:])
    rr = subprocess.run(["cmake", "--build", bdir], capture_output=True, text=True)
    if rr.returncode != 0: raise CompileError("the repository does not build: " + (rr.stdout + rr.stderr)[-2000:])
    trace = os.path.join(wd, "unit_trace.ndjson")
    ntests = 0
    for t in sorted(_g.glob(os.path.join(bdir, "test-*"))):
        if not os.access(t, os.X_OK): continue
        env = dict(os.environ, LD_PRELOAD=so, O1722_TRACE=trace)
        rr = subprocess.run([t], capture_output=True, text=True, env=env, timeout=300)
        ntests += len(re.findall(r"\[\s+OK\s+\]", rr.stdout + rr.stderr))
    layout = pdu.field_widths(wd)
    evs = []
    if os.path.exists(trace):
        for ln in open(trace):
            try: e = json.loads(ln)
            except Exception: continue
            if e["view"] not in layout["hdrlen"]: continue
            L = layout["hdrlen"][e["view"]]
            if e["op"].startswith("null") and e["op"] != "nullout":
                e["pre"] = [0] * L; e["post"] = [0] * L
            if len(e["pre"]) != L: continue            # published header length differs from the specification: C03 reports that
            if e["op"] in ("badget", "badset"):
                e["id"] = "max" if e["rawid"] == e["idmax"] else "other"; e["field"] = ""
            else:
                e["id"] = ""
                if e["op"] in ("get", "set", "nullget", "nullset", "nullout") and e["field"] not in layout["fields"][e["view"]]: continue
            if e["op"] == "init" and e["path"] == "legacy" and e["view"] != "Cvf": e["val"] = [0] * 8
            e.pop("rawid", None); e.pop("idmax", None)
            evs.append(e)
    v.cov["unit_test_events"] = len(evs); v.cov["unit_tests_run"] = ntests
    if not evs: raise Infra("the interposer recorded nothing from the unit tests")
    pdu.validate_events(v, wd, pdu.shard(evs, 4), pid, "unit-tests",
                        keyfn=lambda e, a=None, b=None: "unit-test view=%s op=%s path=%s field=%s kind=trace" % (e.get("view"), e.get("op"), e.get("path"), e.get("field") or e.get("id") or "-"))
    v.sample({"unit_test_event": evs[len(evs) // 2]})


def cvf_talker_streams(v, wd, pid, rnd, q):
    """Growth: the CVF example talker (NAL splitter) against NalSplit.tla.  TLC enumerates byte streams over a token
    alphabet; each is fed to the real talker under several chunkings of the input (chunks >= 3 bytes - see DESIGN.md 13.5);
    the recorded run (input chunks, end of input, packets) must be a behaviour of NalSplit whatever the chunking."""
    import xprog
    res = run_tlc("GenNal", "SPECIFICATION GSpec\nCONSTANTS\n  Buf = {1}\n  MaxTok = %d\nCONSTRAINT Emit\nINVARIANT Partition\nCHECK_DEADLOCK FALSE\n" % (4 if q else 6), wd)
    v.add_tlc("GenNal", res)
    if not res.ok: raise Infra("NalSplit: Partition violated: " + (res.violation or "")[-800:])
    streams = []
    seen = set()
    for e in res.emitted:
        t = tuple(e["stream"])
        if t not in seen and len(t) >= 3: seen.add(t); streams.append(list(t))
    if q and len(streams) > 500: streams = rnd.sample(streams, 500)
    if not q and len(streams) > 6000: streams = rnd.sample(streams, 6000)
    exe = xprog.build_xh(wd, "cvf-talker")
    lines, meta = [], []
    for s_ in streams:
        chunkings = [[s_]]
        for size in (3, 4, 5):
            ch = [s_[i:i + size] for i in range(0, len(s_), size)]
            if len(ch) > 1 and len(ch[-1]) < 3: ch[-2] = ch[-2] + ch[-1]; ch.pop()
            if len(ch) > 1: chunkings.append(ch)
        if len(s_) >= 6:
            cut = rnd.randrange(3, len(s_) - 2)
            chunkings.append([s_[:cut], s_[cut:]])
        for ch in chunkings:
            lines.append("T 0 0 0 100000 " + " ".join(hexs(c_) for c_ in ch)); meta.append((s_, ch))
    obs, _ = xprog.run_xh(exe, lines)
    evs = []
    for (s_, ch), r in zip(meta, obs):
        if r["status"] != "ok":
            v.violation("cvf-talker outcome=%s" % r["status"].split(":")[0], "cvf-talker %s on stream %s chunked %s" % (r["status"], hexs(s_), [len(c_) for c_ in ch]), {"stream": s_, "chunks": ch})
            continue
        evs.append({"e": "reset"})
        items = [x for seg in r["outs"] for x in seg]
        n_in = 0
        for x in items:
            if x.startswith("i"):
                evs.append({"e": "input", "bytes": unhexs(x[1:])}); n_in += 1
                if n_in == len(ch): evs.append({"e": "eof"})       # the next read returns 0
            else:
                evs.append({"e": "pkt", "bytes": unhexs(x)})
    def resume(evs_, idx):
        for j in range(idx + 1, len(evs_)):
            if evs_[j]["e"] == "reset": return j
        return None
    cfg = "SPECIFICATION TSpec\nCONSTANT Buf = {1}\nINVARIANT AllSent\nINVARIANT AllSentAtReset\nPOSTCONDITION TraceAccepted\nCHECK_DEADLOCK FALSE\n"
    for part in pdu.shard_by(evs, lambda e: e["e"] == "reset", 8 if q else 16):
        pdu.validate_events(v, wd, [part], pid, "cvf-talker", module="NalTrace", cfg=cfg, resume=resume, max_resume=4,
                            keyfn=lambda e, a=None, b=None: "cvf-talker event=%s not a behaviour of NalSplit" % e.get("e"))
    v.cov["cvf_talker_runs"] = len(lines)
    v.cov["evaluations"] += len(lines)
