"""Per-property checks.  Each function fills a Verdict."""
import os, json, random
from infra import *
import pdu
from pdu import ALL_VIEWS, LEGACY_VIEWS, Bind

REGISTRY = {}
LEVELS = {}

def check(pid, level="model_checking"):
    def deco(fn):
        REGISTRY[pid] = fn; LEVELS[pid] = level
        return fn
    return deco


def setup(v, variant="O2"):
    wd = workdir()
    ex = Executor(build_exec(wd, variant), wd)
    bind = Bind(ex.describe())
    return wd, ex, bind


def gen_and_replay(v, wd, ex, bind, pid, tier, rnd, scn, views, nrand, walk, depth=1, props=(), invs=(), readback=False, name=None):
    res = run_tlc("GenPdu", pdu.gen_cfg(scn, views, nrand, walk, depth, props, invs), wd)
    v.add_tlc(name or ("GenPdu/" + scn), res)
    if not res.ok:
        raise Infra("the specification violates its own property in scenario %s:\n%s" % (scn, (res.violation or "")[-2000:]))
    st = pdu.replay(v, ex, bind, res.emitted, pid, tier, rnd, readback=readback)
    v.cov["evaluations"] += st["executed"]
    v.cov.setdefault("replayed_transitions", 0); v.cov["replayed_transitions"] += len(res.emitted)
    v.cov.setdefault("skipped_unbound", 0); v.cov["skipped_unbound"] += st["skipped_unbound"]
    if res.emitted:
        v.sample({"tlc_transition": res.emitted[len(res.emitted) // 3]})
    return res, st


def traces(v, wd, ex, bind, pid, rnd, n, views, ops, nshards=8, name="random-calls"):
    layout = pdu.field_widths(wd)
    cmds, evs = pdu.drive_independent(rnd, bind, layout, n, views, ops)
    outs = ex.run(cmds)
    if len(outs) != len(cmds):
        raise Infra("executor died during the random driver (exit %s): %s" % (ex.returncode, ex.stderr[-500:]))
    done = pdu.finish_events(evs, outs, v, pid)
    v.cov["evaluations"] += len(cmds)
    pdu.validate_events(v, wd, pdu.shard(done, nshards), pid, name)
    if done:
        v.sample({"trace_event": done[0]})
        pdu.negative_control(v, wd, done[:50], pid)
    return done


@check("C01")
def c01(v, tier, seed):
    rnd = random.Random(seed)
    wd, ex, bind = setup(v)
    q = tier == "quick"
    gen_and_replay(v, wd, ex, bind, "C01", tier, rnd, "get", ALL_VIEWS, 2 if q else 12, True, props=["ReadOnlyOps"])
    traces(v, wd, ex, bind, "C01", rnd, 24000 if q else 400000, ALL_VIEWS, ("get",), nshards=8 if q else 16)
    # the dedicated getter's return type must be able to carry the whole field
    layout = pdu.field_widths(wd)
    for view, vb in bind.views.items():
        for f in vb["fields"]:
            w = layout["fields"].get(view, {}).get(f["name"])
            if w and f["get"] and 8 * f["ret_size"] < w:
                v.violation("view=%s op=get path=dedicated field=%s kind=retwidth" % (view, f["name"]),
                            "%s returns a %d-bit type for the %d-bit field %s" % (f["get_sym"], 8 * f["ret_size"], w, f["name"]),
                            {"fact": {"getter": f["get_sym"], "ret_bits": 8 * f["ret_size"], "field_bits": w}})
    v.cov["rule"] = ("TLC enumerates Get on every field x path from walking-one/walking-zero images over every header bit and background images; "
                     "every transition is executed on exact (guard-page), read-only and slack placements; plus seeded random calls validated by PduTrace")
    v.cov["distinct_nontrivial"] = v.cov.get("replayed_transitions", 0)
    v.cov["exhaustive"] = False


@check("C02")
def c02(v, tier, seed):
    rnd = random.Random(seed)
    wd, ex, bind = setup(v)
    q = tier == "quick"
    gen_and_replay(v, wd, ex, bind, "C02", tier, rnd, "set", ALL_VIEWS, 1 if q else 8, False,
                   props=["FrameOK", "OthersKept"], invs=["ReadBack"], readback=True)
    traces(v, wd, ex, bind, "C02", rnd, 24000 if q else 400000, ALL_VIEWS, ("set",), nshards=8 if q else 16)
    v.cov["rule"] = ("TLC enumerates Set on every field x path x boundary values (0, 1, 2^w-1, 2^w, every single bit, all-ones, 0xAA.., 0x55..) "
                     "x background images; each is executed on exact and slack placements with all bytes compared, then read back through every reader; "
                     "plus seeded random 64-bit values on random images validated by PduTrace")
    v.cov["distinct_nontrivial"] = v.cov.get("replayed_transitions", 0)


def replay_file(pid, path, v):
    d = json.load(open(path))
    print(json.dumps(d, indent=1)[:4000])
    rep = d.get("replay", {})
    wd, ex, bind = setup(v)
    if "vector" in rep:
        rnd = random.Random(0)
        st = pdu.replay(v, ex, bind, [rep["vector"]], pid, "quick", rnd, readback=False)
        for k, desc, _ in v.violations:
            print("REPRODUCED: %s\n  %s" % (k, desc))
        return 1 if v.violations else 0
    if "trace_event" in rep or "event" in rep:
        ev = rep.get("trace_event") or rep.get("event")
        c = pdu.vec_cmd(ev, bind, "S", 0)
        print("command:", c); print("observed:", ex.run([c]))
        return 1
    print("(no executable replay for this record)")
    return 1
