"""C07-C10: VSS codec, finalisation and string arrays: replay of GenVss / GenStrArr transitions and
validation of recorded calls by VssTrace."""
import os, json, random
from infra import *
import pdu

ALL_TYPES = list(range(0, 12)) + list(range(128, 140))
RESERVED_TYPES = [12, 127, 140, 255]

def es(dt):
    k = dt - 128 if dt >= 128 else dt
    return {2: 2, 3: 2, 4: 4, 5: 4, 9: 4, 6: 8, 7: 8, 10: 8}.get(k, 1)
def is_var(dt): return dt == 11 or 128 <= dt <= 139
def known(dt): return 0 <= dt <= 11 or 128 <= dt <= 139

def cfg(scn, modes, types, nbg, lens=(12,), big=False, invs=("DecodeInvertsEncode", "EncodeThenDecode", "PadOK"), props=("FrameVss",)):
    t = "SPECIFICATION GSpec\nCONSTANTS\n  Buf = {1}\n  Scn = \"%s\"\n  Modes = {%s}\n  Types = {%s}\n  NBg = %d\n  Lens = {%s}\n  Big = %s\nCONSTRAINT Emit\nCHECK_DEADLOCK FALSE\n" % (
        scn, ", ".join(map(str, modes)), ", ".join(map(str, types)), nbg, ", ".join(map(str, lens)), "TRUE" if big else "FALSE")
    for i in invs: t += "INVARIANT %s\n" % i
    for p in props: t += "PROPERTY %s\n" % p
    return t

def vkey(e):
    if e["op"] in ("pad", "calcpath"): return "vss op=%s" % e["op"]
    if e["op"] in ("putpath", "getpath"): return "vss op=%s mode=%d" % (e["op"], e["mode"])
    return "vss op=%s dt=%d" % (e["op"], e["dt"])

def cmd(vec, place, off, cap=None, srcoff=None):
    op = vec["op"]
    if cap is None:
        cap = vec["len"] if op in ("getpath", "getdata") else 0
    return "VS %s %d %d %d %d %d %s %d %s %s%s" % (op, vec["dt"], vec["mode"], vec["n"], cap, vec["base"], place, off, hexs(vec["pre"]), hexs(vec["arg"]),
                                                   "" if srcoff is None else " %d" % srcoff)

ELEM = {130: 2, 131: 2, 132: 4, 133: 4, 134: 8, 135: 8, 137: 4, 138: 8}      # array datatypes with multi-byte elements

def parse(line):
    t = line.split()
    d = {"status": t[1], "ret": from64(unhexs(t[2])), "post": t[5], "canary": t[6]}
    for x in t[7:]:
        k, _, val = x.partition("=")
        d[k] = val
    return d

def compare(vec, line, v, what):
    o = parse(line)
    key = vkey(vec)
    def rep(kind, desc):
        v.violation("%s kind=%s" % (key, kind), desc, {"vector": {k: vec[k] for k in vec if k not in ("pre", "post") or len(vec[k]) < 400}, "observed": {k: (o[k] if len(str(o[k])) < 800 else str(o[k])[:800]) for k in o}, "where": what})
        return False
    if o["status"] == "skipped": return True
    if o["status"].startswith("fault") or o["status"].startswith("crash"):
        return rep("fault", "%s: %s faulted (%s), value/path %d bytes" % (what, vec["op"], o["status"], len(vec["arg"])))
    ok = True
    if o["post"] != hexs(vec["post"]):
        a, b = o["post"], hexs(vec["post"])
        i = next((k for k in range(0, min(len(a), len(b)), 2) if a[k:k + 2] != b[k:k + 2]), 0) // 2
        ok = rep("bytes", "%s: message bytes differ from the reference encoding at offset %d: got ..%s.., specification ..%s.. (arg %s)" % (
            what, i, a[max(0, 2 * i - 8):2 * i + 24], b[max(0, 2 * i - 8):2 * i + 24], hexs(vec["arg"])[:64]))
    if vec["op"] == "calcpath" and o["ret"] != vec["ret"]:
        ok = rep("ret", "%s: path size %d, specification says %d" % (what, o["ret"], vec["ret"]))
    if vec["op"] in ("getpath", "getdata"):
        if int(o["len"]) != vec["len"]:
            ok = rep("len", "%s: reported length %s, specification says %d" % (what, o["len"], vec["len"]))
        exp = hexs(vec["bytes"])
        if o["data"] != exp and not (vec["op"] == "getdata" and vec["n"] == 0 and is_var(vec["dt"]) and o["data"] == "-"):
            ok = rep("value", "%s: decoded %s, specification says %s" % (what, o["data"][:80], exp[:80]))
        if o.get("dirty") == "1":
            ok = rep("dirty", "%s: bytes in front of the caller's destination were modified" % what)
    if o["canary"] != "0":
        ok = rep("canary", "%s: memory outside the message arena was modified" % what)
    return ok

def replay(v, ex, vectors, rnd, places=None, tag=""):
    cmds, meta = [], []
    for vec in vectors:
        reads = vec["op"] in ("calcpath", "getpath", "getdata")
        pls = places if places is not None else [("E", 0), ("S", rnd.randrange(16))] + ([("R", 0)] if reads else [])
        for place, off in pls:
            cmds.append(cmd(vec, place, off)); meta.append((vec, "%splacement %s+%d" % (tag, place, off)))
        if vec["op"] == "putdata" and vec["dt"] in ELEM and vec["arg"] and vec.get("dataat") and (vec["dataat"] + 2) % ELEM[vec["dt"]] == 0:
            # (only where the element area is aligned for the element type: the API takes a typed pointer)
            # zero-copy use: the host-order samples already lie where the message wants them and are converted in place
            # (source pointer = destination of the element area; each element must be read as a whole before it is stored)
            cmds.append(cmd(vec, "S", 0, srcoff=vec["dataat"] + 2)); meta.append((vec, "%ssource in place (inside the message)" % tag))
    outs = ex.run_robust(cmds, timeout=1800)
    if len(outs) != len(cmds): raise Infra("executor died in VSS replay (exit %s): %s" % (ex.returncode, ex.stderr[-400:]))
    bad = sum(0 if compare(vec, line, v, what) else 1 for (vec, what), line in zip(meta, outs))
    return {"executed": len(cmds), "mismatches": bad}

# ------------------------------------------------------------------ random driver (trace direction)
def rand_value(rnd, dt):
    s = es(dt)
    if is_var(dt):
        c = rnd.choice((0, 1, 2, 3, 5, 9, rnd.randrange(0, 40)))
        return [rnd.randrange(256) for _ in range(s * c)]
    return [rnd.randrange(256) for _ in range(s)]

def hdr_bytes(rnd, mode, dt):
    # 12 header bytes with addr_mode/datatype placed; other bits random.  (byte 2: pad(2) mtv(1) addr_mode(2) vss_op(3); byte 3: datatype)
    h = [rnd.randrange(256) for _ in range(12)]
    h[2] = (h[2] & 0xE7) | ((mode & 3) << 3)
    h[3] = dt & 255
    return h

def enc_ref(mode, path, dt, val):
    pw = ([len(path) >> 8, len(path) & 255] + path) if mode == 0 else (path if mode == 1 else [])
    dw = [] if not known(dt) else (([len(val) >> 8, len(val) & 255] + val) if is_var(dt) else val)
    return pw, dw

def drive(rnd, n, ops):
    """random VSS calls; the message layout used to size arenas is the driver's own (it is not an oracle:
    every observed byte is validated by TLC afterwards)."""
    cmds, evs = [], []
    for _ in range(n):
        mode = rnd.choice((0, 0, 1))
        dt = rnd.choice(ALL_TYPES)
        path = [rnd.randrange(256) for _ in range(rnd.choice((0, 1, 5, 13, 40)))] if mode == 0 else [rnd.randrange(256) for _ in range(4)]
        val = rand_value(rnd, dt)
        pw, dw = enc_ref(mode, path, dt, val)
        lead, trail = rnd.choice((0, 1, 2, 3, 5)), rnd.choice((0, 1, 4))
        op = rnd.choice(ops)
        if op == "putpath":
            pre = pdu.rand_bytes(rnd, lead) + hdr_bytes(rnd, mode, dt) + pdu.rand_bytes(rnd, len(pw) + len(dw) + trail)
            ev = {"op": op, "arg": path, "n": 0}
        elif op == "putdata":
            pre = pdu.rand_bytes(rnd, lead) + hdr_bytes(rnd, mode, dt) + pw + pdu.rand_bytes(rnd, len(dw) + trail)
            ev = {"op": op, "arg": val, "n": 0}
        elif op == "pad":
            vlen = rnd.randrange(12, 2045)
            pre = pdu.rand_bytes(rnd, lead + vlen + ((4 - vlen % 4) % 4) + trail)
            ev = {"op": op, "arg": [], "n": vlen}
        else:
            pre = pdu.rand_bytes(rnd, lead) + hdr_bytes(rnd, mode, dt) + pw + dw + pdu.rand_bytes(rnd, trail)
            ev = {"op": op, "arg": [], "n": rnd.randrange(2) if op == "getdata" else 1}
        ev.update(e="vss", base=lead, pre=pre, mode=mode, dt=dt)
        cap = len(path) if op == "getpath" else len(val)
        cmds.append(cmd(dict(ev, len=cap), rnd.choice(("E", "S")), rnd.randrange(16), cap=cap)); evs.append(ev)
    return cmds, evs

def finish(evs, outs, v):
    done = []
    for ev, line in zip(evs, outs):
        o = parse(line)
        key = vkey(ev)
        if o["status"] == "skipped": continue
        if o["status"].startswith("fault") or o["status"].startswith("crash"):
            v.violation(key + " kind=fault", "random %s call faulted (%s)" % (ev["op"], o["status"]), {"event": ev}); continue
        if o["canary"] != "0" or o.get("dirty") == "1":
            v.violation(key + " kind=canary", "random %s call wrote outside its objects" % ev["op"], {"event": ev}); continue
        e = {k: ev[k] for k in ("e", "op", "arg", "n", "base", "pre")}
        e["post"] = unhexs(o["post"]); e["ret"] = o["ret"]; e["len"] = int(o["len"]); e["bytes"] = unhexs(o["data"])
        e["mode"], e["dt"] = ev["mode"], ev["dt"]
        done.append(e)
    return done

# ------------------------------------------------------------------ string arrays
def sa_cmds(vec):
    """commands for one GenStrArr transition; returns [(cmd, kind)]"""
    blob = hexs(vec["blob"])
    if vec["op"] == "pack":
        lst = ",".join(hexs(s) for s in vec["list"]) if vec["list"] else "none"
        return [("SA pack %d %s" % (len(vec["blob"]), lst), "pack")]
    if vec["op"] == "count":
        return [("SA count %s" % blob, "count")]
    caps = ",".join(str(r["len"]) for r in vec["res"]) or "0"
    return [("SA unpack %d %s %s %s" % (vec["req"], wdstr(vec["withdest"]), blob, caps), "unpack")]

def wdstr(wd):
    return "".join(str(x) for x in wd) or "-"

def sa_parse(line):
    t = line.split()
    d = {"status": t[1]}
    for x in t[2:]:
        k, _, val = x.partition("=")
        d[k] = val
    return d

def sa_compare(vec, line, v):
    o = sa_parse(line)
    key = "strarr op=%s" % vec["op"]
    def rep(kind, desc):
        v.violation("%s kind=%s" % (key, kind), desc, {"vector": {k: (vec[k] if len(str(vec[k])) < 600 else "...") for k in vec}, "observed": {k: str(o[k])[:600] for k in o}})
        return False
    if o["status"] == "skipped": return True
    if o["status"].startswith("fault") or o["status"].startswith("crash"):
        return rep("fault", "%s of %d strings (requested %s) faulted: %s (read/write outside the exact-extent buffers)" % (vec["op"], len(vec["list"]), vec.get("req"), o["status"]))
    if vec["op"] == "pack":
        ok = True
        if int(o["len"]) != len(vec["blob"]): ok = rep("len", "pack recorded length %s, specification %d" % (o["len"], len(vec["blob"])))
        if o["data"] != hexs(vec["blob"]): ok = rep("bytes", "packed bytes %s, specification %s" % (o["data"][:80], hexs(vec["blob"])[:80]))
        if o.get("dirty") == "1": ok = rep("dirty", "pack wrote in front of the destination")
        return ok
    if vec["op"] == "count":
        if int(o["ret"]) != vec["count"]:
            return rep("count", "count returned %s for %d strings (%s)" % (o["ret"], vec["count"], hexs(vec["blob"])[:60]))
        return True
    got = [] if o["res"] == "-" else o["res"].split(",")
    ok = True
    for i, r in enumerate(vec["res"]):
        g = got[i] if i < len(got) else "?"
        if "!dirty" in g: ok = rep("dirty", "unpack wrote in front of destination %d" % i); g = g.replace("!dirty", "")
        gl, _, gb = g.partition(":")
        if r["touched"] == 0:
            if gl != "48879": ok = rep("untouched", "unpack of %d strings, requested %d: result object %d beyond the array was written (length %s)" % (vec["count"], vec["req"], i, gl))
            continue
        if gl != str(r["len"]): ok = rep("len", "unpack: string %d length %s, specification %d" % (i, gl, r["len"]))
        if vec["withdest"][i] == 1 and i < 8 and gb != hexs(r["bytes"]): ok = rep("bytes", "unpack: string %d bytes %s, specification %s" % (i, gb[:60], hexs(r["bytes"])[:60]))
    return ok

def sa_replay(v, ex, vectors, tag=""):
    cmds, meta = [], []
    for vec in vectors:
        for c, _ in sa_cmds(vec):
            cmds.append(c); meta.append(vec)
    outs = ex.run_robust(cmds, timeout=1800)
    if len(outs) != len(cmds): raise Infra("executor died in string-array replay (exit %s): %s" % (ex.returncode, ex.stderr[-400:]))
    bad = sum(0 if sa_compare(vec, line, v) else 1 for vec, line in zip(meta, outs))
    return {"executed": len(cmds), "mismatches": bad}

def sa_drive(rnd, n):
    cmds, evs = [], []
    for _ in range(n):
        k = rnd.choice((0, 1, 2, 3, 5, 8))
        lst = [[rnd.randrange(256) for _ in range(rnd.choice((0, 0, 1, 2, 7, 30)))] for _ in range(k)]
        blob = []
        for s in lst: blob += [len(s) >> 8, len(s) & 255] + s
        op = rnd.choice(("pack", "count", "unpack"))
        if op == "pack":
            cmds.append("SA pack %d %s" % (len(blob), ",".join(hexs(s) for s in lst) if lst else "none")); evs.append({"e": "sa", "op": "pack", "list": lst})
        elif op == "count":
            cmds.append("SA count %s" % hexs(blob)); evs.append({"e": "sa", "op": "count", "blob": blob})
        else:
            req = rnd.choice((0, max(k - 1, 0), k, min(k + 1, 8), min(k + 3, 8)))
            m = rnd.choice((0, 1, 2, 2))                   # none / all / a random mixture of destinations
            wd = [m if m < 2 else rnd.randrange(2) for _ in range(req)]
            caps = [len(s) for s in lst] + [0] * 8
            cmds.append("SA unpack %d %s %s %s" % (req, wdstr(wd), hexs(blob), ",".join(str(c) for c in caps[:max(req, 1)])))
            evs.append({"e": "sa", "op": "unpack", "blob": blob, "req": req, "withdest": wd})
    return cmds, evs

def sa_finish(evs, outs, v):
    done = []
    for ev, line in zip(evs, outs):
        o = sa_parse(line)
        if o["status"] == "skipped": continue
        if o["status"].startswith("fault") or o["status"].startswith("crash"):
            v.violation("strarr op=%s kind=fault" % ev["op"], "random string-array call faulted (%s)" % o["status"], {"event": ev}); continue
        e = dict(ev)
        if ev["op"] == "pack":
            if o.get("dirty") == "1":
                v.violation("strarr op=pack kind=dirty", "pack wrote outside its destination", {"event": ev}); continue
            e["blob"] = unhexs(o["data"])[:int(o["len"])] if int(o["len"]) <= len(unhexs(o["data"])) else unhexs(o["data"]) + [0]
        elif ev["op"] == "count":
            e["count"] = int(o["ret"])
        else:
            res = []
            got = [] if o["res"] == "-" else o["res"].split(",")
            bad = False
            for i, g in enumerate(got):
                if "!dirty" in g: bad = True
                gl, _, gb = g.replace("!dirty", "").partition(":")
                if gl == "48879": res.append({"len": 0, "bytes": [], "touched": 0})
                else: res.append({"len": int(gl), "bytes": unhexs(gb) if ev["withdest"][i] else [], "touched": 1})
            if bad:
                v.violation("strarr op=unpack kind=dirty", "unpack wrote outside a destination", {"event": ev}); continue
            e["res"] = res
        done.append(e)
    return done
