"""Shared infrastructure: work directories, building the executor from /repo's working tree,
running TLC (generation, model checking, trace validation), verdicts, evidence files."""
import os, sys, json, re, time, shutil, subprocess, tempfile, hashlib, glob, random, atexit

VERIF = os.path.dirname(os.path.dirname(os.path.abspath(__file__)))
REPO = os.environ.get("VERIF_REPO", "/repo")
SPEC = os.path.join(VERIF, "spec")
HARNESS = os.path.join(VERIF, "harness")
TLA_CP = "/opt/veriftools/tla/tla2tools.jar:/opt/veriftools/tla/CommunityModules-deps.jar"
NCPU = os.cpu_count() or 4


class Infra(Exception):
    """The machinery itself failed (exit 2) - never a verdict about the code."""


# ------------------------------------------------------------------ work directory
_workdirs = []

def workdir(prefix="o1722v_"):
    d = tempfile.mkdtemp(prefix=prefix, dir=os.environ.get("VERIF_TMP", "/tmp"))
    _workdirs.append(d)
    return d

def _cleanup():
    if os.environ.get("VERIF_KEEP"):
        return
    for d in _workdirs:
        shutil.rmtree(d, ignore_errors=True)
atexit.register(_cleanup)


# ------------------------------------------------------------------ building
def lib_sources():
    srcs = sorted(glob.glob(os.path.join(REPO, "src", "avtp", "**", "*.c"), recursive=True))
    if not srcs:
        raise Infra("no library sources under %s/src/avtp" % REPO)
    return srcs

VARIANTS = {
    # name: (compiler, flags)
    "O2":      ("gcc",   ["-O2", "-g"]),
    "gccO0":   ("gcc",   ["-O0"]),
    "gccO1":   ("gcc",   ["-O1"]),
    "gccO2":   ("gcc",   ["-O2"]),
    "gccO3":   ("gcc",   ["-O3"]),
    "clangO0": ("clang", ["-O0"]),
    "clangO1": ("clang", ["-O1"]),
    "clangO2": ("clang", ["-O2"]),
    "clangO3": ("clang", ["-O3"]),
    "be":      ("gcc",   ["-O2", "-U__BYTE_ORDER__", "-D__BYTE_ORDER__=__ORDER_BIG_ENDIAN__"]),
    "asan":    ("clang", ["-O1", "-g", "-fsanitize=address,undefined", "-fno-sanitize-recover=undefined",
                          "-fno-omit-frame-pointer"]),
    "ndebug":  ("gcc",   ["-O3", "-DNDEBUG"]),                    # a release configuration: assert() compiled out
    "uchar":   ("gcc",   ["-O2", "-funsigned-char"]),            # ABIs whose plain char is unsigned (ARM, PowerPC, RISC-V, s390)
    "autoinit": ("gcc",  ["-O2", "-ftrivial-auto-var-init=pattern"]),   # every automatic variable starts with a pattern: stale-stack luck is gone
    "libcfirst": ("gcc", ["-O2", "-include", "stdlib.h", "-include", "sys/types.h", "-include", "endian.h", "-include", "arpa/inet.h", "-include", "stdio.h"]),
                                                                        # a translation unit in which C library headers come first (their macros are visible)
    "allocfail": ("gcc", ["-O2", "-include", os.path.join(HARNESS, "verif_allocfail.h")]),   # every allocation fails
    "asanrec": ("clang", ["-O1", "-g", "-fsanitize=address", "-fsanitize-recover=address", "-fno-omit-frame-pointer"]),
    "ubsan":   ("clang", ["-O1", "-g", "-fsanitize=undefined,alignment", "-fsanitize-recover=all"]),
    "align":   ("clang", ["-O1", "-g", "-fsanitize=alignment", "-fsanitize-recover=alignment"]),
    "tsan":    ("clang", ["-O1", "-g", "-fsanitize=thread"]),
}

class CompileError(Exception):
    pass

# ---- build configurations demanded by the tree itself: every preprocessor conditional of the library on a symbol that a compiler
#      option controls must be built both ways.  The unchanged tree only tests __BYTE_ORDER__ (covered by the forced big-endian
#      variant) and __cplusplus; anything else found by the scan adds a build variant.
COND_FLAGS = {
    "NDEBUG": ["-DNDEBUG"], "__OPTIMIZE_SIZE__": ["-Os"], "__OPTIMIZE__": ["-O0"], "__NO_INLINE__": ["-O0"], "__STDC_HOSTED__": ["-ffreestanding"],
    "__CHAR_UNSIGNED__": ["-funsigned-char"], "__FAST_MATH__": ["-ffast-math"], "__PIC__": ["-fPIC"], "__pic__": ["-fPIC"], "__PIE__": ["-fPIE"],
    "_FORTIFY_SOURCE": ["-O2", "-D_FORTIFY_SOURCE=2"], "__SANITIZE_ADDRESS__": ["-fsanitize=address"], "__NO_MATH_ERRNO__": ["-fno-math-errno"],
    "__BMI__": ["-mbmi"], "__BMI2__": ["-mbmi2"], "__LZCNT__": ["-mlzcnt"], "__POPCNT__": ["-mpopcnt"], "__MOVBE__": ["-mmovbe"],
    "__SSE3__": ["-msse3"], "__SSSE3__": ["-mssse3"], "__SSE4_1__": ["-msse4.1"], "__SSE4_2__": ["-msse4.2"], "__AVX__": ["-mavx"], "__AVX2__": ["-mavx2"],
    "__SHORT_ENUMS__": ["-fshort-enums"], "_OPENMP": ["-fopenmp"], "__STRICT_ANSI__": ["-std=c99"], "__WCHAR_UNSIGNED__": ["-funsigned-wchar"],
}
COND_NEUTRAL = {"__cplusplus", "__BYTE_ORDER__", "__ORDER_LITTLE_ENDIAN__", "__ORDER_BIG_ENDIAN__", "__GNUC__", "__clang__", "__x86_64__", "__i386__",
                "__linux__", "__unix__", "defined", "__has_include", "__has_builtin", "__has_attribute", "__STDC_VERSION__", "__LINE__", "__FILE__"}

def conditional_variants():
    """Scan src/ and include/ of the current tree for preprocessor conditionals; returns {variant name: (compiler, flags)} for the
    symbols that are not neutral, plus the list of symbols found."""
    import re as _re
    syms = set()
    files = glob.glob(os.path.join(REPO, "src", "**", "*.[ch]"), recursive=True) + glob.glob(os.path.join(REPO, "include", "**", "*.h"), recursive=True)
    for f in files:
        txt = _re.sub(r"/\*.*?\*/", "", open(f, errors="replace").read(), flags=_re.S)
        txt = _re.sub(r"\\\n", " ", txt)
        defined_here = set(_re.findall(r"^[ \t]*#[ \t]*define[ \t]+(\w+)", txt, flags=_re.M))
        for m in _re.finditer(r"^[ \t]*#[ \t]*(?:if|ifdef|ifndef|elif)\b([^\n]*)", txt, flags=_re.M):
            for name in _re.findall(r"[A-Za-z_]\w*", _re.sub(r"//.*", "", m.group(1))):
                if name in COND_NEUTRAL or name in defined_here: continue         # include guards and locally defined feature macros
                syms.add(name)
    # symbols defined by other files of the tree are the tree's own configuration, not the compiler's
    own = set()
    for f in files:
        own |= set(_re.findall(r"^[ \t]*#[ \t]*define[ \t]+(\w+)", open(f, errors="replace").read(), flags=_re.M))
    syms -= own
    variants = {}
    for s_ in sorted(syms):
        if s_ in COND_FLAGS: flags = ["-O2"] + COND_FLAGS[s_] if not any(x.startswith("-O") for x in COND_FLAGS[s_]) else list(COND_FLAGS[s_])
        elif s_.startswith("__"): flags = ["-O2", "-march=native"]          # a target feature macro without a known switch
        else: flags = ["-O2", "-D%s=1" % s_]
        variants["cond_" + _re.sub(r"\W", "", s_)] = ("gcc", flags)
    return variants, sorted(syms)

import threading as _threading
_bind_lock = _threading.Lock()
def gen_bindings(wd):
    out = os.path.join(wd, "bind")
    with _bind_lock:                  # several build threads ask for the bindings at once: generate once, publish the complete directory
        if os.path.isdir(out):
            return out
        tmp = out + ".tmp"
        r = subprocess.run([sys.executable, os.path.join(HARNESS, "gen_bindings.py"), REPO, tmp],
                           capture_output=True, text=True)
        if r.returncode != 0:
            raise Infra("binding generation failed: " + r.stderr[-2000:])
        os.rename(tmp, out)
    return out

_exe_locks = {}
def _exe_lock(path):
    with _bind_lock:
        return _exe_locks.setdefault(path, _threading.Lock())

def build_exec(wd, variant="O2", extra_sources=(), extra_flags=(), name=None):
    """Compile executor + generated bindings + the library sources of the current tree."""
    cc, flags = VARIANTS[variant]
    bind = gen_bindings(wd)
    exe = os.path.join(wd, name or ("exec_" + variant))
    with _exe_lock(exe):              # build threads may ask for the same executable: one builds, the others wait for the complete file
        if os.path.exists(exe):
            return exe
        tmp = exe + ".tmp%d" % os.getpid()
        cmd = [cc] + flags + list(extra_flags) + ["-std=gnu99", "-w", "-I" + os.path.join(REPO, "include"), "-I" + HARNESS,
              os.path.join(HARNESS, "exec.c"), os.path.join(HARNESS, "exec_ext.c")] + \
              sorted(glob.glob(os.path.join(bind, "*.c"))) + lib_sources() + list(extra_sources) + ["-o", tmp, "-lm", "-lpthread"]
        r = subprocess.run(cmd, capture_output=True, text=True)
        if r.returncode != 0:
            raise CompileError("build of %s failed:\n%s" % (variant, r.stderr[-4000:]))
        os.rename(tmp, exe)
    return exe


def build_exec32(wd):
    """The ILP32 executor (harness/exec32.c): freestanding -m32 build of the library + bindings; None if the toolchain cannot do it."""
    bind = gen_bindings(wd)
    exe = os.path.join(wd, "exec_ilp32")
    with _exe_lock(exe):
        if os.path.exists(exe): return exe
        tmp = exe + ".tmp%d" % os.getpid()
        cmd = ["gcc", "-m32", "-O1", "-w", "-std=gnu99", "-ffreestanding", "-nostdlib", "-static", "-fno-stack-protector", "-fno-pic", "-no-pie",
               "-I" + os.path.join(HARNESS, "shim32"), "-I" + os.path.join(REPO, "include"), "-I" + HARNESS, os.path.join(HARNESS, "exec32.c"), os.path.join(HARNESS, "exec_ext.c")] + \
              sorted(glob.glob(os.path.join(bind, "*.c"))) + lib_sources() + ["-o", tmp]
        r = subprocess.run(cmd, capture_output=True, text=True)
        if r.returncode != 0:
            raise CompileError("ILP32 build failed:\n%s" % r.stderr[-3000:])
        os.rename(tmp, exe)
    return exe


class Executor:
    """Batch interface to the C executor: commands in, observation lines out."""
    def __init__(self, exe, wd, env=None):
        self.exe, self.wd, self.env = exe, wd, env
        self._n = 0
        self.stderr = ""

    def run(self, lines, timeout=600):
        self._n += 1
        cmdf = os.path.join(self.wd, "cmds_%d_%d.txt" % (os.getpid(), self._n))
        with open(cmdf, "w") as f:
            f.write("\n".join(lines)); f.write("\n")
        env = dict(os.environ)
        env.setdefault("ASAN_OPTIONS", "detect_leaks=0:allow_user_segv_handler=1:handle_segv=0:handle_sigbus=0:handle_sigfpe=0:abort_on_error=0:halt_on_error=0")
        env.setdefault("UBSAN_OPTIONS", "print_stacktrace=0:halt_on_error=0")
        if self.env: env.update(self.env)
        try:
            with open(cmdf) as fin:
                r = subprocess.run([self.exe], stdin=fin, capture_output=True, text=True, timeout=timeout, env=env)
        except subprocess.TimeoutExpired:
            raise Infra("executor timed out")
        finally:
            os.unlink(cmdf)
        self.stderr = r.stderr
        self.returncode = r.returncode
        out = r.stdout.split("\n")
        if out and out[-1] == "": out.pop()
        elif out: out.pop()          # the process died in the middle of a line: drop the fragment
        return out

    def run_robust(self, lines, timeout=600, max_crashes=25):
        """Like run(), but survives a dying executor: a library call that corrupts memory so badly that the
        process dies is an observation, not a machinery failure.  The culprit command is re-run alone; if
        it kills a fresh process again its answer becomes 'R crash ...'."""
        outs = []
        rest = list(lines)
        crashes = 0
        while rest:
            got = self.run(rest, timeout=timeout)
            if len(got) >= len(rest):
                outs.extend(got[:len(rest)]); break
            outs.extend(got)
            culprit = rest[len(got)]
            alone = self.run([culprit], timeout=60)
            if alone:
                # it survives alone: state-dependent (earlier corruption) - attribute to this command anyway
                outs.append("R crash:%s 0000000000000000 0 0000000000000000 - 1 len=0 data=- dirty=1 ret=0 res=-" % self.returncode)
            else:
                outs.append("R crash:%s 0000000000000000 0 0000000000000000 - 1 len=0 data=- dirty=1 ret=0 res=-" % self.returncode)
            crashes += 1
            rest = rest[len(got) + 1:]
            if crashes >= max_crashes:
                # a crash storm is an observation too: the crashes seen so far carry the report, the rest of the batch is not run
                outs.extend(["R skipped 0000000000000000 0 0000000000000000 - 0 len=0 data=- dirty=0 ret=0 res=-"] * len(rest))
                break
        return outs

    def describe(self):
        out = self.run(["describe"])
        if not out:
            raise Infra("executor gave no description: " + self.stderr[-500:])
        return json.loads(out[0])


# ------------------------------------------------------------------ TLC
class TlcResult:
    def __init__(self):
        self.lines = []; self.emitted = []; self.generated = 0; self.distinct = 0; self.depth = 0
        self.ok = False; self.violation = None; self.raw_tail = ""; self.wall = 0.0; self.coverage = {}

_tlc_seq = [0]

def run_tlc(module, cfg_text, wd, workers=None, timeout=1800, env=None, heap="6g", simulate=None, coverage=False,
            extra_args=(), depth_first=False):
    """Run TLC on spec/<module>.tla with the given configuration text.  Returns TlcResult.
    Raises Infra on parse errors, timeouts or TLC internal errors."""
    _tlc_seq[0] += 1
    tag = "%s_%d_%d" % (module, os.getpid(), _tlc_seq[0])
    cfg = os.path.join(wd, tag + ".cfg")
    with open(cfg, "w") as f:
        f.write(cfg_text)
    meta = os.path.join(wd, "meta_" + tag)
    jopts = ["-XX:+UseParallelGC", "-Xmx" + heap, "-Xss32m"]
    if depth_first:
        jopts.append("-Dtlc2.tool.queue.IStateQueue=StateDeque")
    cmd = ["java"] + jopts + ["-cp", TLA_CP, "tlc2.TLC", "-workers", str(workers or min(NCPU, 16)), "-metadir", meta,
           "-config", cfg, "-noGenerateSpecTE"]
    if simulate:
        cmd += ["-simulate", simulate]
    if coverage:
        cmd += ["-coverage", "1"]
    cmd += list(extra_args) + [module + ".tla"]
    e = dict(os.environ)
    if env: e.update(env)
    t0 = time.time()
    outf = os.path.join(wd, tag + ".out")
    try:
        with open(outf, "w") as fo:
            r = subprocess.run(cmd, cwd=SPEC, stdout=fo, stderr=subprocess.STDOUT, timeout=timeout, env=e)
    except subprocess.TimeoutExpired:
        raise Infra("TLC timed out on %s after %ds" % (module, timeout))
    res = TlcResult()
    res.wall = time.time() - t0
    tail = []
    with open(outf, errors="replace") as f:
        for ln in f:
            ln = ln.rstrip("\n")
            if ln.startswith('"{') or ln.startswith('"['):
                try:
                    res.emitted.append(json.loads(json.loads(ln)))
                except Exception:
                    raise Infra("cannot parse emitted line: " + ln[:200])
                continue
            tail.append(ln)
            if len(tail) > 400: tail.pop(0)
            m = re.match(r"(\d+) states generated, (\d+) distinct states found", ln)
            if m:
                res.generated, res.distinct = int(m.group(1)), int(m.group(2))
            m = re.search(r"depth of the complete state graph search is (\d+)", ln)
            if m: res.depth = int(m.group(1))
            m = re.match(r"<(\w+) line .* of module (\w+)>: (\d+):(\d+)", ln)
            if m: res.coverage[m.group(1)] = (int(m.group(3)), int(m.group(4)))
    res.raw_tail = "\n".join(tail[-60:])
    shutil.rmtree(meta, ignore_errors=True)
    text = "\n".join(tail)
    if "Model checking completed. No error has been found." in text or (simulate and r.returncode == 0):
        res.ok = True
    elif re.search(r"Invariant .* is violated|Action property .* is violated|Temporal properties were violated|is violated by the initial state|Assumption .* is false|Postcondition .* is false", text) or r.returncode in (12, 13, 14):
        res.ok = False
        res.violation = text[-6000:]
    else:
        raise Infra("TLC failed on %s (exit %d):\n%s" % (module, r.returncode, text[-3000:]))
    if not os.environ.get("VERIF_KEEP"):
        try: os.unlink(outf)
        except OSError: pass
    return res


def validate_trace(module, cfg_text, trace_path, wd, timeout=1800, heap="3g"):
    """Trace validation: module reads IOEnv.TRACE; acceptance = model checking completes
    with the POSTCONDITION holding.  Returns (accepted, TlcResult)."""
    res = run_tlc(module, cfg_text, wd, workers=1, timeout=timeout, env={"TRACE": trace_path}, heap=heap)
    return res.ok, res


# ------------------------------------------------------------------ verdicts / evidence
class Verdict:
    def __init__(self, pid, tier, seed, level):
        self.pid, self.tier, self.seed, self.level = pid, tier, seed, level
        self.t0 = time.time()
        self.violations = []      # (key, description, replay dict)
        self.known = []
        self.cov = {"states": 0, "transitions": 0, "traces_validated_against_impl": 0, "samples": [],
                    "evaluations": 0, "distinct_nontrivial": 0, "rule": "", "tlc_runs": [], "exhaustive": False}
        self.assumptions = []
        self.findings = load_findings()
        self._keys = set()
        self.growth = None        # name of the growth specification being validated (see growth_scope)
        self.notes = []           # deviations from growth specifications: reported, never a verdict on the listed property

    def add_tlc(self, name, res):
        self.cov["states"] += res.distinct
        self.cov["transitions"] += res.generated
        self.cov["tlc_runs"].append({"run": name, "distinct_states": res.distinct, "states_generated": res.generated,
                                     "depth": res.depth, "wall_s": round(res.wall, 1), "ok": res.ok})

    def sample(self, s, limit=6):
        if len(self.cov["samples"]) < limit:
            self.cov["samples"].append(s)

    def growth_scope(self, name):
        """Inside this scope the code is compared with a specification that says MORE than the listed property (what an example
        program prints, in which order it presents samples ...).  A deviation from it is reported as a NOTE and recorded in the
        evidence, but it is not a violation of the property: a change of an example's output format must not raise an alarm.
        Observations the property does speak about (crash, hang, termination) are reported with hard_violation()."""
        import contextlib
        @contextlib.contextmanager
        def cm():
            old = self.growth; self.growth = name
            try: yield
            finally: self.growth = old
        return cm()

    def hard_violation(self, key, desc, replay):
        old = self.growth; self.growth = None
        try: self.violation(key, desc, replay)
        finally: self.growth = old

    def violation(self, key, desc, replay):
        """Report one violation; `key` identifies the failing input/site (used for known findings)."""
        if key in self._keys:
            return
        self._keys.add(key)
        if self.growth:
            self.notes.append((self.growth, key, desc)); return
        for f in self.findings:
            if f["property"] == self.pid and f["kind"] == "finding" and f["key"] == key:
                self.known.append((key, f["text"]))
                return
        self.violations.append((key, desc, replay))

    def finish(self):
        ev_dir = os.path.join(VERIF, "evidence")
        os.makedirs(os.path.join(ev_dir, "replay"), exist_ok=True)
        for old in glob.glob(os.path.join(ev_dir, "replay", self.pid + "-*.json")):
            os.unlink(old)
        for key, text in self.known:
            print("KNOWN-FINDING: property=%s %s (%s)" % (self.pid, key, text))
        paths = []
        for i, (key, desc, replay) in enumerate(self.violations[:50]):
            p = os.path.join(ev_dir, "replay", "%s-%d.json" % (self.pid, i))
            with open(p, "w") as f:
                json.dump({"property": self.pid, "key": key, "description": desc, "replay": replay}, f, indent=1)
            paths.append(p)
            print("VIOLATION property=%s replay=%s" % (self.pid, p))
            print("  key: %s\n  %s" % (key, desc))
        if len(self.violations) > 50:
            print("  ... and %d more violations" % (len(self.violations) - 50))
        for scope, key, desc in self.notes[:20]:
            print("NOTE: property=%s growth specification %s (says more than the property; not a verdict on it): %s\n  %s" % (self.pid, scope, key, desc[:400]))
        cov = dict(self.cov)
        cov["growth_spec_deviations"] = [{"specification": s_, "key": k_} for s_, k_, _ in self.notes[:100]]
        cov["violation_keys"] = [k for k, _, _ in self.violations[:200]]
        cov["known_findings_seen"] = [k for k, _ in self.known]
        ev = {"property_id": self.pid, "tier": self.tier, "seed": self.seed, "level": self.level, "coverage": cov,
              "assumptions": self.assumptions, "wall_s": round(time.time() - self.t0, 1),
              "violations": len(self.violations)}
        with open(os.path.join(ev_dir, self.pid + ".json"), "w") as f:
            json.dump(ev, f, indent=1)
        return 1 if self.violations else 0


def load_findings():
    out = []
    p = os.path.join(VERIF, "KNOWN_FINDINGS.txt")
    if not os.path.exists(p):
        return out
    for ln in open(p):
        ln = ln.strip()
        if not ln or ln.startswith("#"): continue
        m = re.match(r"(finding|fixed):\s+property=(\S+)\s+key=\[(.*?)\]\s*(.*)$", ln)
        if m:
            out.append({"kind": m.group(1), "property": m.group(2), "key": m.group(3), "text": m.group(4)})
    return out


def hexs(bs):
    for b in bs:
        if not (0 <= b <= 255):
            raise Infra("the specification produced a byte outside 0..255 (%r): specification error, not a verdict" % (b,))
    return "".join("%02x" % b for b in bs) if len(bs) else "-"

def unhexs(s):
    return [] if s == "-" else [int(s[i:i + 2], 16) for i in range(0, len(s), 2)]

def v64(x):
    return [(x >> (8 * (7 - i))) & 255 for i in range(8)]

def from64(b):
    v = 0
    for x in b: v = (v << 8) | x
    return v
