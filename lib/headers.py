"""C20: public headers can be combined freely.
  - scan_headers(): declaration facts of every public header of the current tree, in file order
    (macros with bodies, enumerators, struct tags, typedef names, nested includes, #pragma once/pack)
    -> input of the TLA+ model Headers.tla (read through IOEnv.FACTS)
  - alone_values(): the meaning of every public name when its header is included alone
    (enumerator and macro values, sizeof / offsetof of every public structure), from the compiler
  - compile_matrix(): for ordered tuples of headers, a translation unit with static assertions on
    all those meanings, compiled as C99 and C++; the compiler's verdict is the oracle.
"""
import os, re, glob, json, subprocess, itertools, concurrent.futures as cf
from infra import *

def public_headers():
    inc = os.path.join(REPO, "include")
    return sorted(os.path.relpath(h, inc) for h in glob.glob(os.path.join(inc, "avtp", "**", "*.h"), recursive=True))

def strip_comments(s):
    s = re.sub(r"/\*.*?\*/", lambda m: "\n" * m.group(0).count("\n"), s, flags=re.S)
    return re.sub(r"//[^\n]*", "", s)

def all_macro_names():
    names = set()
    for h in public_headers():
        src = re.sub(r"\\\n", " ", strip_comments(open(os.path.join(REPO, "include", h)).read()))
        names |= set(re.findall(r'^[ \t]*#[ \t]*define[ \t]+(\w+)', src, flags=re.M))
    return names

def scan_header(rel, macros=frozenset()):
    """facts of one header, in order of appearance"""
    src = strip_comments(open(os.path.join(REPO, "include", rel)).read())
    src = re.sub(r"\\\n", " ", src)
    facts = []
    pos_items = []
    for m in re.finditer(r'^[ \t]*#[ \t]*pragma[ \t]+once', src, flags=re.M):
        pos_items.append((m.start(), {"kind": "once"}))
    for m in re.finditer(r'^[ \t]*#[ \t]*pragma[ \t]+pack[ \t]*\(([^)]*)\)', src, flags=re.M):
        a = m.group(1).replace(" ", "")
        if a.startswith("push"): pos_items.append((m.start(), {"kind": "pack_push", "name": a}))
        elif a.startswith("pop"): pos_items.append((m.start(), {"kind": "pack_pop", "name": a}))
        else: pos_items.append((m.start(), {"kind": "pack_set", "name": a}))
    for m in re.finditer(r'^[ \t]*#[ \t]*include[ \t]*"([^"]+)"', src, flags=re.M):
        pos_items.append((m.start(), {"kind": "include", "name": m.group(1)}))
    for m in re.finditer(r'^[ \t]*#[ \t]*define[ \t]+(\w+)(\([^)]*\))?[ \t]*([^\n]*)', src, flags=re.M):
        # function-like only if the parenthesis follows the name immediately
        fl = m.group(2) is not None and src[m.end(1)] == "("
        body = " ".join(m.group(3).split()) if fl else " ".join(((m.group(2) or "") + " " + m.group(3)).split())
        pos_items.append((m.start(), {"kind": "macro", "name": m.group(1), "body": body, "fnlike": 1 if fl else 0}))
    for m in re.finditer(r'^[ \t]*#[ \t]*undef[ \t]+(\w+)', src, flags=re.M):
        pos_items.append((m.start(), {"kind": "undef", "name": m.group(1)}))
    for m in re.finditer(r'\benum\b\s*(\w*)\s*\{(.*?)\}', src, flags=re.S):
        if m.group(1): pos_items.append((m.start(), {"kind": "tag", "name": "enum " + m.group(1)}))
        off = m.start(2)
        for em in re.finditer(r'(\w+)\s*(?:=[^,}]*)?(?:,|$)', m.group(2)):
            pos_items.append((off + em.start(), {"kind": "enumerator", "name": em.group(1)}))
    for m in re.finditer(r'\b(struct|union)\s+(\w+)\s*\{', src):
        pos_items.append((m.start(), {"kind": "tag", "name": m.group(1) + " " + m.group(2)}))
    for m in re.finditer(r'\}\s*(?:__attribute__\s*\(\([^)]*\)\)\s*)?(\w+)\s*;', src):
        # "} Name;" closing a typedef'd struct/enum/union
        before = src[:m.start()]
        depth_open = before.rfind("typedef")
        if depth_open >= 0 and m.group(1) not in macros:
            pos_items.append((m.start(), {"kind": "typedef", "name": m.group(1)}))
    for m in re.finditer(r'^[ \t]*(?:[\w\*]+[ \t]+)+\**[ \t]*((?:Avtp|avtp)_\w+|IsFieldDescriptorValid)\s*\(', src, flags=re.M):
        pos_items.append((m.start(), {"kind": "function", "name": m.group(1)}))
    # uses: a name that some public header defines as a macro, appearing in the header's own declarations (not in a directive).
    # If it is not a macro at that point the declaration means something else (or does not compile).
    code = re.sub(r'^[ \t]*#[^\n]*', lambda m_: " " * len(m_.group(0)), src, flags=re.M)
    seen_use = set(f["name"] for _, f in pos_items if f["kind"] in ("enumerator", "typedef", "function", "tag"))   # its own declarations are not uses
    for m in re.finditer(r'\b[A-Za-z_]\w*\b', code):
        n_ = m.group(0)
        if n_ in macros and n_ not in seen_use:
            seen_use.add(n_); pos_items.append((m.start(), {"kind": "use", "name": n_}))
    pos_items.sort(key=lambda x: x[0])
    # alternative definitions of one macro inside one header (#if ... #define X a #else #define X b #endif): the preprocessor sees one of
    # them; a second #define of a name without an #undef in between is not a redefinition the header makes
    live, kept = set(), []
    for pos_, f in pos_items:
        if f["kind"] == "macro":
            if f["name"] in live: continue
            live.add(f["name"])
        elif f["kind"] == "undef":
            live.discard(f["name"])
        kept.append((pos_, f))
    pos_items = kept
    for _, f in pos_items:
        f["h"] = rel
        f.setdefault("body", ""); f.setdefault("fnlike", 0)
        facts.append(f)
    return facts

def scan_headers():
    macros = frozenset(all_macro_names())
    return {h: scan_header(h, macros) for h in public_headers()}

# ------------------------------------------------------------------ meanings from the compiler
PROBE_C = r'''
#include <stdio.h>
#include <stddef.h>
#include "%(hdr)s"
int main(void) {
%(lines)s
  return 0;
}
'''

def own_preprocessed(rel):
    """the header preprocessed on its own (macros expanded), restricted to the lines that come from the header itself"""
    inc = os.path.join(REPO, "include")
    r = subprocess.run(["gcc", "-E", "-std=gnu99", "-I" + inc, os.path.join(inc, rel)], capture_output=True, text=True)
    if r.returncode != 0:
        return strip_comments(open(os.path.join(inc, rel)).read())
    out, mine = [], False
    for ln in r.stdout.split("\n"):
        m = re.match(r'# \d+ "([^"]*)"', ln)
        if m:
            mine = os.path.abspath(m.group(1)) == os.path.abspath(os.path.join(inc, rel)); continue
        if mine: out.append(ln)
    return "\n".join(out)

ATTR = r'(?:\s*__attribute__\s*\(\((?:[^()]|\([^()]*\))*\)\))*'

def struct_members(rel):
    """(type expression, [members]) for every struct/union the header declares with a usable name.
    Works on the preprocessed text, so that attribute macros and the like are already expanded."""
    src = own_preprocessed(rel)
    out = []
    for m in re.finditer(r'typedef\s+(struct|union)' + ATTR + r'\s*(\w*)\s*\{([^{}]*)\}' + ATTR + r'\s*(\w+)\s*;', src):
        mem = [mm.group(1) for mm in re.finditer(r'(\w+)\s*(?:\[[^\]]*\])?\s*;', m.group(3))]
        out.append((m.group(4), mem))
    for m in re.finditer(r'(?:^|\n|;)\s*(struct|union)' + ATTR + r'\s+(\w+)\s*\{([^{}]*)\}' + ATTR + r'\s*;', src):
        mem = [mm.group(1) for mm in re.finditer(r'(\w+)\s*(?:\[[^\]]*\])?\s*;', m.group(3))]
        out.append(("%s %s" % (m.group(1), m.group(2)), mem))
    return out

def alone_values(wd, facts):
    """{header: {expr: value}} - integer meanings of the public names of each header included alone"""
    inc = os.path.join(REPO, "include")
    res = {}
    def one(h):
        fs = [f for f in facts[h] if f["h"] == h]
        exprs = []
        for f in fs:
            if f["kind"] == "enumerator": exprs.append(f["name"])
            elif f["kind"] == "macro" and f["body"] and not f.get("fnlike"): exprs.append(f["name"])
        for t, mem in struct_members(h):
            exprs.append("sizeof(%s)" % t)
            for m_ in mem: exprs.append("offsetof(%s, %s)" % (t, m_))
        vals = {}
        macro_names = set(f["name"] for f in fs if f["kind"] == "macro" and f["body"] and not f.get("fnlike"))
        # probe each expression separately for "is an integer constant expression" by compiling all, dropping failures
        good = list(dict.fromkeys(exprs))
        for attempt in range(6):
            lines = "\n".join('  printf("%%s\\t%%lld\\n", "%s", (long long)(%s));' % (e.replace('"', ''), e) for e in good)
            # type of the integer constants that are macros: size and signedness (a macro redefined with another spelling of the
            # same value - 4 / 4u / 4L - changes the arithmetic of every expression it is used in)
            lines += "\n" + "\n".join('  printf("T\\t%%s\\t%%d\\t%%d\\n", "%s", (int)sizeof(%s), (int)(((__typeof__(%s))-1) < 0));' % (e, e, e) for e in good if e in macro_names)
            cfile = os.path.join(wd, "probe_%s.c" % re.sub(r"\W", "_", h))
            open(cfile, "w").write(PROBE_C % {"hdr": h, "lines": lines})
            exe = cfile[:-2]
            r = subprocess.run(["gcc", "-std=gnu99", "-w", "-I" + inc, cfile, "-o", exe], capture_output=True, text=True)
            if r.returncode == 0:
                out = subprocess.run([exe], capture_output=True, text=True).stdout
                for ln in out.split("\n"):
                    if ln.startswith("T\t"):
                        _, k, sz, sg = ln.split("\t"); TYPE_FACTS.setdefault(h, {})[k] = (int(sz), int(sg))
                    elif "\t" in ln:
                        k, val = ln.split("\t"); vals[k] = int(val)
                break
            bad = set()
            for m in re.finditer(r"probe_\w+\.c:(\d+):", r.stderr):
                ln = int(m.group(1)) - 6
                if 0 <= ln < len(good): bad.add(good[ln])
            if not bad: break
            good = [e for e in good if e not in bad]
        return h, vals
    with cf.ThreadPoolExecutor(max_workers=NCPU) as pool:
        for h, vals in pool.map(one, list(facts)):
            res[h] = vals
    return res

def alone_macros(h):
    """names that are macros after including the header alone"""
    inc = os.path.join(REPO, "include")
    r = subprocess.run(["gcc", "-std=gnu99", "-dM", "-E", "-I" + inc, os.path.join(inc, h)], capture_output=True, text=True)
    return set(re.findall(r"^#define (\w+)", r.stdout, flags=re.M))

def plain_functions(facts):
    """{header: [function names it declares that are NOT macros when it is included alone]} - such a name must stay a function
    (same evaluation of arguments, same conversions) whatever else is included"""
    out = {}
    for h, fs in facts.items():
        am = alone_macros(h)
        out[h] = sorted(set(f["name"] for f in fs if f["kind"] == "function" and f["h"] == h and f["name"] not in am))
    return out

PLAIN_FUNCS = {}
TYPE_FACTS = {}
ATTR_FACTS = {}
# what a declaration promises the caller's compiler about a function (GCC/clang function attributes that change what a call means)
PROMISES = ["const", "pure", "noreturn", "nonnull", "malloc", "returns_nonnull", "returns_twice", "warn_unused_result", "deprecated",
            "always_inline", "weak", "alloc_size", "noinline"]      # (not 'access': GCC attaches it implicitly to array parameters in C only)
ATTR_MACRO = "#define VERIF_ATTRS(fn) (" + " | ".join("(__builtin_has_attribute(fn, __%s__) << %d)" % (a, i) for i, a in enumerate(PROMISES)) + ")"

def attr_masks(wd, h, fns):
    """{function: bit mask over PROMISES} as the compiler sees the declarations after including header h alone"""
    if not fns: return {}
    inc = os.path.join(REPO, "include")
    cfile = os.path.join(wd, "attr_%s.c" % re.sub(r"\W", "_", h))
    src = ['#include <stdio.h>', '#include "%s"' % h, ATTR_MACRO, "int main(void) {"]
    src += ['  printf("%%s\\t%%d\\n", "%s", (int)VERIF_ATTRS(%s));' % (f, f) for f in fns]
    src += ["  return 0;", "}"]
    open(cfile, "w").write("\n".join(src) + "\n")
    r = subprocess.run(["gcc", "-std=gnu99", "-w", "-I" + inc, cfile, "-o", cfile[:-2]], capture_output=True, text=True)
    if r.returncode != 0:
        return {}
    out = subprocess.run([cfile[:-2]], capture_output=True, text=True).stdout
    return {ln.split("\t")[0]: int(ln.split("\t")[1]) for ln in out.split("\n") if "\t" in ln}

def function_promises(wd, facts):
    """fact events: for every public function, whether it reaches memory through its arguments (reads / writes) and which promises
    its declarations make - validated by FactsTrace (a getter cannot be 'const', a writer cannot be 'pure', nothing is 'noreturn' ...)"""
    evs = []
    pf = plain_functions(facts)
    for h, fns in pf.items():
        masks = attr_masks(wd, h, fns)
        text = own_preprocessed(h)
        for fn in fns:
            m = re.search(r'\b' + fn + r'\s*\(([^;{]*?)\)\s*(?:__attribute__|;|\{)', text, flags=re.S)
            params = m.group(1) if m else ""
            ptrs = [p_ for p_ in params.split(",") if "*" in p_ or "[" in p_]
            reads = 1 if ptrs else 0
            # (a writer by signature AND by name: a reader that takes a non-const pointer may truthfully be declared pure)
            writes = 1 if any(not re.search(r'\bconst\b', p_) for p_ in ptrs) and re.search(r'(Set|Init|Create|Pad|Serialize|Finalize|Enable|Disable|_set$|_init$)', fn) else 0
            mask = masks.get(fn)
            if mask is None: continue
            evs.append({"e": "fact", "kind": "fn_promise", "name": fn, "header": h, "reads": reads, "writes": writes,
                        "attrs": [a for i, a in enumerate(PROMISES) if mask >> i & 1]})
    return evs

def tu_text(order, alone, lang):
    """returns (source, {line number: expression})"""
    t = ["#include <stddef.h>", "#include <stdint.h>"]
    for h in order: t.append('#include "%s"' % h)
    for h in order:
        for fn in PLAIN_FUNCS.get(h, ()):
            t += ["#ifdef %s" % fn, '#error "%s changed meaning: the function is now a macro"' % fn, "#endif"]
    lines = {}
    k = 0
    for h in order:
        for e, val in alone[h].items():
            k += 1
            if lang == "c":
                t.append("typedef char verif_assert_%d[((long long)(%s) == %dLL) ? 1 : -1];" % (k, e, val))
            else:
                t.append('static_assert((long long)(%s) == %dLL, "%s changed meaning");' % (e, val, e.replace('"', '')))
            lines[len(t)] = e
    for h in order:
        for e, (sz, sg) in TYPE_FACTS.get(h, {}).items():
            k += 1
            if lang == "c":
                t.append("typedef char verif_type_%d[(sizeof(%s) == %d && ((((__typeof__(%s))-1) < 0) == %d)) ? 1 : -1];" % (k, e, sz, e, sg))
            else:
                t.append('static_assert(sizeof(%s) == %d && ((((decltype(%s))-1) < 0) == %d), "%s changed meaning");' % (e, sz, e, sg, e))
            lines[len(t)] = e + " (type)"
    if any(ATTR_FACTS.get(h) for h in order):
        t.append(ATTR_MACRO)
        for h in order:
            for fn, mask in ATTR_FACTS.get(h, {}).items():
                k += 1
                if lang == "c":
                    t.append("typedef char verif_attr_%d[((int)VERIF_ATTRS(%s) == %d) ? 1 : -1];" % (k, fn, mask))
                else:
                    t.append('static_assert((int)VERIF_ATTRS(%s) == %d, "%s (what its declarations promise the compiler) changed meaning");' % (fn, mask, fn))
                lines[len(t)] = fn + " (what its declarations promise the compiler)"
    t.append("int verif_tu_dummy;")
    return "\n".join(t) + "\n", lines

def compile_tuple(wd, order, alone, lang):
    inc = os.path.join(REPO, "include")
    src, lines = tu_text(order, alone, lang)
    cmd = (["gcc", "-std=c99", "-x", "c"] if lang == "c" else ["g++", "-std=c++11", "-x", "c++"]) + ["-fsyntax-only", "-I" + inc, "-"]
    r = subprocess.run(cmd, input=src, capture_output=True, text=True)
    errs = []
    for ln in r.stderr.split("\n"):
        if " error" not in ln: continue
        m = re.match(r"<stdin>:(\d+):", ln)
        if m and int(m.group(1)) in lines and ("verif_assert" in ln or "verif_type" in ln or "verif_attr" in ln or "size of array" in ln or "negative" in ln):
            errs.append('error: static assertion failed: "%s changed meaning"' % lines[int(m.group(1))])
        else:
            errs.append(ln)
    return r.returncode == 0, errs

def classify(errs):
    """a stable description of a compiler verdict"""
    kinds = []
    for e in errs:
        m = re.search(r"error: (.*)", e)
        if not m: continue
        msg = m.group(1)
        msg = re.sub(r"‘|’|'", "'", msg)
        m2 = re.search(r"static assertion failed: \"?([^\"]*) changed meaning", msg)
        if m2: kinds.append("meaning-changed " + m2.group(1)); continue
        m2 = re.search(r"#error \"?(\w+) changed meaning: the function is now a macro", msg)
        if m2: kinds.append("function-became-macro " + m2.group(1)); continue
        m2 = re.search(r"(redefinition|redeclaration|conflicting declaration|redeclared|previous|multiple definition) of '?(?:enumerator )?'?([\w ]+)'?", msg)
        if m2: kinds.append("%s %s" % (m2.group(1), m2.group(2).strip())); continue
        kinds.append(re.sub(r"\s+", " ", msg)[:80])
    return sorted(set(kinds))
