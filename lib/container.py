"""Growth (AcfContainer.tla): TSCF / NTSCF containers with several mixed full / brief ACF-CAN messages, assembled by the real library
(executor command CT) exactly as TLC assembled them; final bytes, running offset and the receiver's walk must agree."""
from infra import *

def cfg(ctrls, maxmsgs, lens, nbg, maxcloses=2):
    t = "SPECIFICATION ASpec\nCONSTANTS\n  Buf = {1}\n  Ctrls = {%s}\n  MaxMsgs = %d\n  Lens = {%s}\n  NBg = %d\n  MaxCloses = %d\nCONSTRAINT Emit\nCHECK_DEADLOCK FALSE\n" % (
        ", ".join('"%s"' % c for c in ctrls), maxmsgs, ", ".join(str(x) for x in lens), nbg, maxcloses)
    for i in ("ParseInvertsAssembly", "LengthExact", "Beyond", "HeaderKept"): t += "INVARIANT %s\n" % i
    return t

def msgtok(msgs, closes=()):
    def one(m):
        if m["kind"] == "gpc":                 # the application's payload is the unpadded prefix; the specification stores it padded
                    return "g:%012x:0:%s" % (from64(m["id"]), hexs(m["payload"][:m["rawlen"]]))
        return "%s:%08x:%d:%s" % (m["kind"][0], from64(m["id"]) & 0xFFFFFFFF, m["fd"], hexs(m["payload"]))
    toks = []
    for i, m in enumerate(msgs):
        toks += ["c"] * sum(1 for c in closes[:-1] if c == i)        # intermediate closes (the last close is the command's own)
        toks.append(one(m))
    toks += ["c"] * sum(1 for c in closes[:-1] if c == len(msgs))
    return ";".join(toks) or "-"

def walktok(msgs):
    def one(m):
        if m["kind"] == "gpc": return "g:%012x:0:0:%s;" % (from64(m["id"]), hexs(m["payload"]))
        return "%s:%08x:%d:%d:%s;" % (m["kind"][0], from64(m["id"]) & 0x1FFFFFFF, m["fd"], 1 if from64(m["id"]) > 0x7FF else 0, hexs(m["payload"]))
    return "".join(one(m) for m in msgs) or "-"

def cmd(vec, place, off):
    return "CT %s %s %d %s %s" % (vec["ctrl"], place, off, hexs(vec["pre"]), msgtok(vec["msgs"], vec.get("closes", ())))

def compare(vec, line, v, what):
    t = line.split()
    status, ret, post, canary = t[1], t[2], t[5], t[6]
    walk = t[7][5:] if len(t) > 7 and t[7].startswith("walk=") else "?"
    hdr = 24 if vec["ctrl"] == "Tscf" else 12
    shape = "%s[%s]" % (vec["ctrl"], ",".join("%s%d" % (m["kind"][0], len(m["payload"])) for m in vec["msgs"]))
    key = "container ctrl=%s" % vec["ctrl"]
    rep = {"vector": vec, "observed": {"status": status, "used": ret, "post": post, "walk": walk}, "where": what}
    if status == "skipped": return True
    if status.startswith("fault") or status.startswith("crash"):
        v.hard_violation(key + " kind=fault", "%s: assembling %s with the library faulted (%s)" % (what, shape, status), rep); return False
    ok = True
    exp = hexs(vec["post"])
    if post != exp:
        a, b = unhexs(post), vec["post"]
        first = next((i for i in range(min(len(a), len(b))) if a[i] != b[i]), min(len(a), len(b)))
        desc = "%s: container %s: byte %d is %s, AcfContainer says %s" % (what, shape, first, post[2 * first:2 * first + 2], exp[2 * first:2 * first + 2])
        if first >= hdr: v.hard_violation(key + " kind=bytes", desc, rep)          # inside / beyond the ACF-CAN messages: what C06 speaks about
        else: v.violation(key + " kind=ctrl-header", desc, rep)                    # control header: growth scope
        ok = False
    if from64(unhexs(ret)) != vec["used"]:
        v.hard_violation(key + " kind=offset", "%s: container %s: running offset from the lengths read back is %d, AcfContainer says %d" % (what, shape, from64(unhexs(ret)), vec["used"]), rep); ok = False
    if post == exp and walk != walktok(vec["msgs"]):
        v.hard_violation(key + " kind=walk", "%s: container %s: the walk by the ACF prefix sees %s, appended were %s" % (what, shape, walk, walktok(vec["msgs"])), rep); ok = False
    if canary != "0":
        v.hard_violation(key + " kind=canary", "%s: memory outside the arena modified" % what, rep); ok = False
    return ok

def replay(v, ex, vectors, rnd, places=None, tag=""):
    cmds, meta = [], []
    for vec in vectors:
        for place, off in (places if places is not None else (("E", 0), ("S", rnd.randrange(16)))):
            cmds.append(cmd(vec, place, off)); meta.append((vec, "%splacement %s+%d" % (tag, place, off)))
    outs = ex.run_robust(cmds)
    if len(outs) != len(cmds): raise Infra("executor died in container replay: " + ex.stderr[-400:])
    bad = sum(0 if compare(vec, line, v, what) else 1 for (vec, what), line in zip(meta, outs))
    return {"executed": len(cmds), "mismatches": bad}
