"""Whole-program placement: TLC transitions replayed inside a caller that OWNS the buffer (a local array a few bytes larger than
the header) in a program linked with link-time optimisation.  The library function is then compiled in the context of its caller:
what it may assume about the object it is handed (its size, its alignment, its previous contents) is the caller's business - the
specification has no such parameter.  One generated function per transition; the compiler is free to inline the library into it."""
import os, glob, subprocess
from infra import *

def replay(v, wd, bind, vectors, pid, tag="[whole-program -flto] ", flags=("-O2", "-flto")):
    bdir = gen_bindings(wd)
    usable = []
    for vec in vectors:
        view, op, path = vec["view"], vec["op"], vec["path"]
        if op == "init" and path == "current" and bind.views.get(view, {}).get("init"): usable.append(vec)
        elif op in ("get", "set") and path == "generic" and bind.has_path(view, vec["field"], op, "generic") and vec["field"] in bind.fidx[view]: usable.append(vec)
    if not usable: return 0
    decl, body, calls = set(), [], []
    for i, vec in enumerate(usable):
        view, op = vec["view"], vec["op"]
        n = len(vec["pre"]); base = vec["base"]
        init = ", ".join(str(b) for b in vec["pre"])
        if op == "init":
            decl.add("void verif_init_%s(void*);" % view); call = "verif_init_%s(buf + %d);" % (view, base)
        elif op == "set":
            decl.add("void verif_gset_%s(void*, long, uint64_t);" % view)
            fid = bind.views[view]["fields"][bind.fidx[view][vec["field"]]]["id"]
            call = "verif_gset_%s(buf + %d, %dL, 0x%xULL);" % (view, base, fid, from64(vec["val"]))
        else:
            decl.add("uint64_t verif_gget_%s(void*, long);" % view)
            fid = bind.views[view]["fields"][bind.fidx[view][vec["field"]]]["id"]
            call = "ret = verif_gget_%s(buf + %d, %dL);" % (view, base, fid)
        body.append("__attribute__((flatten)) static void t%d(void) { uint8_t buf[%d] __attribute__((aligned(8))) = { %s }; uint64_t ret = 0; %s emit(%d, ret, buf, %d); }"
                    % (i, n, init, call, i, n))
        calls.append("t%d();" % i)
    src = ["#include <stdint.h>", "#include <stdio.h>",
           "static void emit(int i, uint64_t r, const volatile uint8_t* p, int n) { printf(\"%d %016llx \", i, (unsigned long long)r); for (int k = 0; k < n; k++) printf(\"%02x\", p[k]); putchar('\\n'); }"]
    src += sorted(decl) + body + ["int main(void) {"] + calls + ["return 0; }"]
    cfile = os.path.join(wd, "wholeprog_%s_%d.c" % (pid, len(usable))); exe = cfile[:-2]
    open(cfile, "w").write("\n".join(src) + "\n")
    cmd = ["gcc"] + list(flags) + ["-std=gnu99", "-w", "-I" + os.path.join(REPO, "include"), cfile] + sorted(glob.glob(os.path.join(bdir, "direct", "*.c"))) + lib_sources() + ["-o", exe, "-lm"]
    r = subprocess.run(cmd, capture_output=True, text=True)
    if r.returncode != 0:
        raise CompileError("whole-program build failed:\n" + r.stderr[-3000:])
    try:
        out = subprocess.run([exe], capture_output=True, text=True, timeout=300)
    except subprocess.TimeoutExpired:
        v.violation("whole-program kind=hang", tag + "the whole-program replay did not finish", {}); return 0
    got = {}
    for ln in out.stdout.split("\n"):
        t = ln.split()
        if len(t) == 3: got[int(t[0])] = (t[1], t[2])
    if out.returncode != 0 or len(got) < len(usable):
        nxt = usable[len(got)] if len(got) < len(usable) else None
        v.violation("view=%s op=%s path=%s field=%s kind=fault" % ((nxt["view"], nxt["op"], nxt["path"], nxt.get("field") or "-") if nxt else ("?", "?", "?", "?")),
                    tag + "the program died (exit %d) at transition %d: %s" % (out.returncode, len(got), out.stderr[-300:]), {"vector": nxt})
    for i, vec in enumerate(usable):
        if i not in got: continue
        ret, post = got[i]
        key = "view=%s op=%s path=%s field=%s" % (vec["view"], vec["op"], vec["path"], vec.get("field") or "-")
        if post != hexs(vec["post"]):
            v.violation(key + " kind=bytes", tag + "caller-owned local buffer after the call is %s, specification says %s (before: %s)" % (post, hexs(vec["post"]), hexs(vec["pre"])),
                        {"vector": vec, "observed": {"post": post, "ret": ret}})
        elif vec["op"] == "get" and ret != hexs(vec["ret"]):
            v.violation(key + " kind=ret", tag + "returned %s, specification says %s (buffer %s)" % (ret, hexs(vec["ret"]), hexs(vec["pre"])), {"vector": vec, "observed": {"ret": ret}})
    v.cov.setdefault("whole_program_lto_transitions", 0); v.cov["whole_program_lto_transitions"] += len(usable)
    return len(usable)
