"""Functional models of the example listeners bound by trace validation (growth beyond the listed properties)."""
import os, json, random
from infra import *
import pdu, xprog

def can_listener_function(v, wd, pid, can_observations, q):
    """CanListener.tla: what acf-can-listener forwards for ANY datagram (longest prefix of well-formed ACF-CAN messages).
    can_observations: [(udp, fd, [datagram bytes, ...], xh observation)] from the C18 run (grammar, bit flips, random bytes)."""
    by_mode = {}
    for udp, fd, dgs, o in can_observations:
        if o["status"] != "ok" or o["done"] < len(dgs): continue        # crashes / hangs are C18's own business
        for i, d in enumerate(dgs):
            seg = o["outs"][i] if i < len(o["outs"]) else []
            frames = [xprog.frame_parse(bytes.fromhex(x), fd) for x in seg]
            by_mode.setdefault((udp, fd), []).append({"e": "dgram", "bytes": d if d else [0] * 0, "frames": frames, "ret": o["rets"][i] if i < len(o["rets"]) else 0})
    import concurrent.futures as cf
    def one(item):
        (udp, fd), evs = item
        evs = [e for e in evs if e["bytes"]]                              # (an empty JSON array has no element type for TLC)
        vv = Verdict(pid, "quick", 0, v.level)
        cfg = ("SPECIFICATION TSpec\nCONSTANTS\n  Buf = {1}\n  Tscf = 0\n  Udp = %d\n  Fd = %d\n  Count = 1\nPOSTCONDITION TraceAccepted\nCHECK_DEADLOCK FALSE\n" % (udp, fd))
        pdu.validate_events(vv, wd, pdu.shard(evs, 4), pid, "can-listener-function-udp%d-fd%d" % (udp, fd), module="CanListenerTrace", cfg=cfg,
                            keyfn=lambda e, a=None, b=None: "can-listener-function udp=%d fd=%d forwarded-frames-differ" % (udp, fd))
        return (udp, fd), evs, vv
    n = 0
    with cf.ThreadPoolExecutor(max_workers=4) as pool:
        for (udp, fd), evs, vv in pool.map(one, sorted(by_mode.items())):
            for k_, d_, r_ in vv.violations: v.violation(k_, d_, r_)
            v.cov["states"] += vv.cov["states"]; v.cov["transitions"] += vv.cov["transitions"]
            v.cov["traces_validated_against_impl"] += vv.cov["traces_validated_against_impl"]; v.cov["tlc_runs"] += vv.cov["tlc_runs"]
            n += len(evs)
            forwarding = [e for e in evs if e["frames"]]
            v.cov.setdefault("can_listener_function", {})["udp=%d fd=%d" % (udp, fd)] = {"datagrams": len(evs), "forwarding": len(forwarding)}
    v.cov["evaluations"] += n
    return n
