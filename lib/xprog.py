"""Harness for the example programs (C18, C19): build, run datagram/frame sequences, parse observations."""
import os, subprocess, struct, glob
from infra import *

PROGS = {"can-listener": "CAN_LISTENER", "can-talker": "CAN_TALKER", "cvf-listener": "CVF_LISTENER", "aaf-listener": "AAF_LISTENER",
         "crf-listener": "CRF_LISTENER", "hello-listener": "HELLO_LISTENER", "vss-listener": "VSS_LISTENER",
         "aaf-talker": "AAF_TALKER", "crf-talker": "CRF_TALKER", "hello-talker": "HELLO_TALKER", "vss-talker": "VSS_TALKER", "cvf-talker": "CVF_TALKER"}

def build_xh(wd, prog, sanitize=False):
    exe = os.path.join(wd, "xh_%s%s" % (prog, "_asan" if sanitize else ""))
    if os.path.exists(exe): return exe
    flags = ["-O1", "-g", "-w", "-std=gnu11", "-fno-strict-aliasing"]
    if sanitize:
        flags += ["-fsanitize=address,undefined", "-fno-sanitize-recover=undefined", "-fno-omit-frame-pointer", "-ftrivial-auto-var-init=pattern"]
    tmp = exe + ".tmp%d_%d" % (os.getpid(), id(prog) % 100000)
    cmd = ["clang"] + flags + ["-DXH_" + PROGS[prog], "-I" + os.path.join(REPO, "include"), "-I" + os.path.join(REPO, "examples"), "-I" + HARNESS,
           os.path.join(HARNESS, "xh.c")] + lib_sources() + ["-o", tmp, "-lm"]
    r = subprocess.run(cmd, capture_output=True, text=True)
    if r.returncode != 0:
        raise CompileError("build of example harness %s failed:\n%s" % (prog, r.stderr[-3000:]))
    os.rename(tmp, exe)          # complete file or none: another thread may be looking for it
    return exe

def run_xh(exe, lines, timeout=1800):
    env = dict(os.environ, ASAN_OPTIONS="detect_leaks=0:abort_on_error=1:handle_abort=0:allocator_may_return_null=1", UBSAN_OPTIONS="halt_on_error=1:abort_on_error=1:print_stacktrace=0")
    try:
        r = subprocess.run([exe], input="\n".join(lines) + "\n", capture_output=True, text=True, timeout=timeout, env=env)
    except subprocess.TimeoutExpired:
        raise Infra("example harness timed out")
    outs = [l for l in r.stdout.split("\n") if l.startswith("R ")]
    if len(outs) != len(lines):
        raise Infra("example harness answered %d lines for %d commands: %s" % (len(outs), len(lines), r.stderr[-600:]))
    res = []
    for l in outs:
        t = l.split()
        segs = [] if t[4] == "-" else [[x for x in s.split(",") if x] for s in t[4].split("|")]
        res.append({"status": t[1], "done": int(t[2]), "rets": [] if t[3] == "-" else [int(x) for x in t[3].split(",")], "outs": segs})
    return res, r.stderr

# ---- SocketCAN frame structs
CAN_EFF_FLAG, CAN_RTR_FLAG = 0x80000000, 0x40000000
CANFD_BRS, CANFD_ESI, CANFD_FDF = 1, 2, 4
def frame_bytes(f, fd):
    cid = from64([0, 0, 0, 0] + f["id"]) | (CAN_EFF_FLAG if f["eff"] else 0) | (CAN_RTR_FLAG if f["rtr"] else 0)
    if fd:
        fl = (CANFD_BRS if f["brs"] else 0) | (CANFD_ESI if f["esi"] else 0) | (CANFD_FDF if f["fdf"] else 0)
        return struct.pack("<IBBBB64s", cid, len(f["data"]), fl, 0, 0, bytes(f["data"]))
    return struct.pack("<IBBBB8s", cid, len(f["data"]), 0, 0, 0, bytes(f["data"]))
def frame_parse(b, fd):
    cid, ln, fl = struct.unpack_from("<IBB", b, 0)
    data = list(b[8:8 + min(ln, len(b) - 8)])
    return {"id": v64(cid & 0x1FFFFFFF)[4:], "eff": 1 if cid & CAN_EFF_FLAG else 0, "rtr": 1 if cid & CAN_RTR_FLAG else 0,
            "fdf": (1 if fl & CANFD_FDF else 0) if fd else 0, "brs": (1 if fl & CANFD_BRS else 0) if fd else 0,
            "esi": (1 if fl & CANFD_ESI else 0) if fd else 0, "data": data}
