"""C06: ACF-CAN builders.  Replay of GenCan transitions and validation of recorded builder calls (CanTrace)."""
import os, json, random
from infra import *
import pdu

def cfg(scn, lens, kinds, nbg, invs=("WellFormed", "ReadBackLen", "Composition"), props=("FrameCan",)):
    t = "SPECIFICATION CSpec\nCONSTANTS\n  Buf = {1}\n  Scn = \"%s\"\n  Lens = {%s}\n  Kinds = {%s}\n  NBg = %d\nCONSTRAINT Emit\nCHECK_DEADLOCK FALSE\n" % (
        scn, ", ".join(str(x) for x in lens), ", ".join('"%s"' % k for k in kinds), nbg)
    for i in invs: t += "INVARIANT %s\n" % i
    for p in props: t += "PROPERTY %s\n" % p
    return t

def cmd(vec, place, off):
    return "CB %s %s %s %d %d %d %s %d %s %s%s" % (vec["kind"], vec["op"], hexs(vec["id"]), vec["fd"], vec["len"], vec["base"], place, off,
                                                 hexs(vec["pre"]), hexs(vec["payload"]), (" %d" % vec["srcoff"]) if vec.get("srcoff", 9999) < 9999 else "")

def compare(vec, line, v, what):
    t = line.split()
    status, ret, post, canary = t[1], t[2], t[5], t[6]
    key = "can kind=%s op=%s" % (vec["kind"], vec["op"])
    def rep(kind, desc):
        v.violation("%s kind=%s" % (key, kind), desc, {"vector": vec, "observed": {"status": status, "ret": ret, "post": post}, "where": what})
        return False
    if status == "skipped": return True
    if status.startswith("fault") or status.startswith("crash"):
        return rep("fault", "%s: builder faulted (%s) for len=%d id=%s" % (what, status, vec["len"], hexs(vec["id"])))
    ok = True
    if post != hexs(vec["post"]):
        ok = rep("bytes", "%s: len=%d id=%s fd=%d: message bytes %s, specification says %s (before %s)" % (what, vec["len"], hexs(vec["id"]), vec["fd"], post, hexs(vec["post"]), hexs(vec["pre"])))
    if from64(unhexs(ret)) != vec["ret"] and (vec["kind"] == "brief" or vec["op"] == "paylen"):
        ok = rep("ret", "%s: len=%d: returned %d, specification says %d" % (what, vec["len"], from64(unhexs(ret)), vec["ret"]))
    if canary != "0":
        ok = rep("canary", "%s: memory outside the arena modified" % what)
    return ok

def replay(v, ex, vectors, rnd, places=None, tag=""):
    cmds, meta = [], []
    for vec in vectors:
        for place, off in (places if places is not None else (("E", 0), ("S", rnd.randrange(16)))):
            cmds.append(cmd(vec, place, off)); meta.append((vec, "%splacement %s+%d" % (tag, place, off)))
    outs = ex.run_robust(cmds)
    if len(outs) != len(cmds): raise Infra("executor died in CAN replay: " + ex.stderr[-400:])
    bad = sum(0 if compare(vec, line, v, what) else 1 for (vec, what), line in zip(meta, outs))
    return {"executed": len(cmds), "mismatches": bad}

def drive(rnd, n):
    cmds, evs = [], []
    for _ in range(n):
        kind = rnd.choice(("full", "brief"))
        H = 16 if kind == "full" else 8
        op = rnd.choice(("create", "create", "create", "finalize", "copy"))
        ln = rnd.choice((rnd.randrange(0, 65), rnd.randrange(0, 65), rnd.randrange(0, 9), rnd.randrange(65, 300)))
        pad = (4 - ln % 4) % 4
        lead, trail = rnd.choice((0, 1, 2, 5)), rnd.choice((0, 1, 3, 8))
        pre = pdu.rand_bytes(rnd, lead + H + ln + pad + trail)
        idv = rnd.choice((rnd.getrandbits(11), rnd.getrandbits(29), rnd.getrandbits(32), 0x7FF, 0x800, (rnd.getrandbits(3) << 29) | rnd.getrandbits(11)))
        payload = [rnd.randrange(256) for _ in range(ln)] if op != "finalize" else []
        ev = {"e": "can", "kind": kind, "op": op, "id": v64(idv), "fd": rnd.randrange(2), "len": ln, "payload": payload, "base": lead, "pre": pre}
        cmds.append(cmd(ev, rnd.choice(("E", "S")), rnd.randrange(16))); evs.append(ev)
    return cmds, evs

def finish(evs, outs, v):
    done = []
    for ev, line in zip(evs, outs):
        t = line.split()
        status, ret, post, canary = t[1], t[2], t[5], t[6]
        key = "can kind=%s op=%s" % (ev["kind"], ev["op"])
        if status == "skipped": continue
        if status.startswith("fault") or status.startswith("crash"):
            v.violation(key + " kind=fault", "random builder call faulted (%s), len=%d" % (status, ev["len"]), {"event": ev}); continue
        if canary != "0":
            v.violation(key + " kind=canary", "random builder call wrote outside its arena, len=%d" % ev["len"], {"event": ev}); continue
        e = dict(ev); e["post"] = unhexs(post); e["ret"] = from64(unhexs(ret)) & 0x7FFFFFFF
        done.append(e)
    return done
