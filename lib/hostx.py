"""Descriptor-shape sweep (C01/C02 raw API) and crossed-build conformance (C14)."""
import os, json, random
from infra import *
import pdu, can, vss

def impl_cfg(qs, offs, ws, memhost, branch, invs=("T7", "HostIndependent"), bigqs=()):
    t = "SPECIFICATION Spec\nCONSTANTS\n  Qs = {%s}\n  Offs = {%s}\n  Ws = {%s}\n  MemHost = \"%s\"\n  Branch = \"%s\"\n  BigQs = {%s}\nCONSTRAINT Emit\nCHECK_DEADLOCK FALSE\n" % (
        ",".join(map(str, qs)), ",".join(map(str, offs)), ",".join(map(str, ws)), memhost, branch, ",".join(map(str, bigqs)))
    for i in invs: t += "INVARIANT %s\n" % i
    return t

def x_cfg(scn, views, memhost, branch, bigcounts=(64, 300), acc="walk", codec="helpers"):
    return ("SPECIFICATION Spec\nCONSTANTS\n  Buf = {1}\n  Scn = \"%s\"\n  XViews = {%s}\n  MemHost = \"%s\"\n  Branch = \"%s\"\n  BigCounts = {%s}\n  AccStyle = \"%s\"\n  CodecStyle = \"%s\"\nCONSTRAINT Emit\nINVARIANT HostIndependence\nCHECK_DEADLOCK FALSE\n"
            % (scn, ", ".join('"%s"' % v for v in views), memhost, branch, ", ".join(map(str, bigcounts)), acc, codec))

def raw_cmd(vec, place, off):
    return "Y %s %d %d %d %s %d %s %d %s" % (vec["op"], vec["q"], vec["off"], vec["w"], hexs(vec["val"]) + (hexs(vec["val2"]) if vec["op"] == "gsg" else ""),
                                            vec["base"], place, off, hexs(vec["pre"]))

def raw_replay(v, ex, vectors, rnd, tag, places=None):
    cmds, meta = [], []
    for vec in vectors:
        for place, off in (places if places is not None else (("E", 0), ("S", rnd.randrange(16)))):
            cmds.append(raw_cmd(vec, place, off)); meta.append(vec)
    outs = ex.run_robust(cmds)
    bad = 0
    for vec, line in zip(meta, outs):
        t = line.split()
        status, ret, post, canary = t[1], t[2], t[5], t[6]
        key = "%s raw op=%s off=%d w=%d" % (tag, vec["op"], vec["off"], vec["w"])
        if status == "skipped": continue
        if status != "ok":
            v.violation(key + " kind=fault", "raw descriptor (q=%d, off=%d, bits=%d) %s: %s" % (vec["q"], vec["off"], vec["w"], vec["op"], status), {"vector": vec}); bad += 1; continue
        if vec["op"] == "gsg":
            got = [(t[7][3:] if len(t) > 7 else "?"), t[4], ret]; want = [hexs(vec["r0"]), hexs(vec["r1"]), hexs(vec["ret"])]
            if got != want:
                v.violation(key + " kind=stale-read", "raw descriptor (q=%d, off=%d, bits=%d): get, set %s, get, set %s, get inside one caller function on %s returned %s, specification says %s "
                            "(a read returns what the bytes hold when it is made)" % (vec["q"], vec["off"], vec["w"], hexs(vec["val"]), hexs(vec["val2"]), hexs(vec["pre"]), got, want),
                            {"vector": vec, "observed": line}); bad += 1; continue
        if post != hexs(vec["post"]) or (vec["op"] == "get" and ret != hexs(vec["ret"])) or canary != "0":
            v.violation(key + " kind=bytes", "raw descriptor (q=%d, off=%d, bits=%d) %s value %s on %s: got bytes %s ret %s, specification bytes %s ret %s" % (
                vec["q"], vec["off"], vec["w"], vec["op"], hexs(vec["val"]), hexs(vec["pre"]), post, ret, hexs(vec["post"]), hexs(vec["ret"])), {"vector": vec, "observed": line}); bad += 1
    return {"executed": len(cmds), "mismatches": bad}
