#!/bin/bash
# build + run the repository test-suite in a scratch build dir (removed afterwards)
set -e
src=${1:-/repo}
b=$(mktemp -d /tmp/o1722_tests_XXXX)
cmake -G Ninja -S $src -B $b -DUNIT_TESTING=on >/dev/null
cmake --build $b >/dev/null 2>$b/build.err || { cat $b/build.err | tail -20; rm -rf $b; exit 3; }
rc=0
for t in $b/test-*; do [ -x $t ] && { $t 2>&1 | grep -E "PASSED|FAILED" | tr '\n' ' '; } ; done; echo
ctest --test-dir $b -j8 2>&1 | tail -3 || rc=1
rm -rf $b
exit $rc
