/* stand-in for the C library headers in the freestanding ILP32 build (no 32-bit libc is installed in the sandbox) */
#pragma once
#include <stddef.h>
void *memcpy(void *d, const void *s, size_t n);
void *memmove(void *d, const void *s, size_t n);
void *memset(void *d, int c, size_t n);
int memcmp(const void *a, const void *b, size_t n);
size_t strlen(const char *s);
int strcmp(const char *a, const char *b);
int strncmp(const char *a, const char *b, size_t n);
char *strncpy(char *d, const char *s, size_t n);
char *strchr(const char *s, int c);
char *strcpy(char *d, const char *s);
