#pragma once
