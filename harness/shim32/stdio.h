#pragma once
/* stand-in for <stdio.h> in the freestanding ILP32 build: formatted output of exec32.c (%s %d %u %ld %lu %zu %llu %02x %c) */
#include <stddef.h>
int printf(const char* fmt, ...);
int putchar(int c);
