#pragma once
#define assert(x) ((void)0)
