#pragma once
extern int errno;
#define EPERM 1
#define ENOENT 2
#define EINTR 4
#define EIO 5
#define EBADF 9
#define EAGAIN 11
#define ENOMEM 12
#define EFAULT 14
#define EINVAL 22
#define ERANGE 34
#define EOVERFLOW 75
