#pragma once
#include <stddef.h>
int atoi(const char* s);
long atol(const char* s);
