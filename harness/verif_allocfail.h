/* force-included into every translation unit of the "allocfail" build: every allocation the library attempts fails.
 * The specification gives the library no licence to behave differently when memory is short (the unchanged library
 * allocates nothing), so the replayed transitions must come out the same. */
#include <stdlib.h>
#define malloc(n) ((void)(n), (void*)0)
#define calloc(a, b) ((void)(a), (void)(b), (void*)0)
#define realloc(p, n) ((void)(p), (void)(n), (void*)0)
