#ifndef EXEC_EXT_H
#define EXEC_EXT_H
#include <stdint.h>
#include <stddef.h>
int exec_ext(char** tok, int nt);     /* further command families (builders, codecs, helpers); 1 = handled */
void describe_ext(void);
int hexval(int c);
size_t unhex(const char* s, uint8_t* out, size_t max);
void puthex(const uint8_t* p, size_t n);
#endif
