#ifndef EXEC_EXT_H
#define EXEC_EXT_H
#include <stdint.h>
#include <stddef.h>
int exec_ext(char** tok, int nt);     /* further command families (builders, codecs, helpers); 1 = handled */
void describe_ext(void);
int hexval(int c);
size_t unhex(const char* s, uint8_t* out, size_t max);
void puthex(const uint8_t* p, size_t n);
uint8_t* ext_place(char place, long off, const uint8_t* bytes, size_t n);
uint8_t* ext_source(const uint8_t* bytes, size_t n);
void ext_dest_hint(uint8_t* p);
uint8_t* ext_source_typed(const uint8_t* bytes, size_t n, size_t elem);   /* keeps the source aligned for its element type */
int ext_call(void (*fn)(void*), void* ctx, char* status, size_t slen, uint8_t* arena);
void ext_result(const char* status, uint64_t ret, long rc, uint64_t out, uint8_t* arena, size_t alen);
uint8_t* ext_dest(int k, size_t cap, uint8_t fill);
int ext_dest_dirty(int k, size_t cap, uint8_t fill);
#define EXT_MAXARENA (18 * 4096 - 64)
#endif
