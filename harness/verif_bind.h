/* Binding tables generated from the public headers of the tree under test. */
#ifndef VERIF_BIND_H
#define VERIF_BIND_H
#include <stdint.h>
typedef struct {
    const char* name;        /* enumerator suffix, lower case = field name used by the specification */
    const char* enumerator;
    long id;                 /* enumerator value */
    uint64_t (*get)(void*);  /* dedicated getter (result widened to 64 bit) or NULL */
    void (*set)(void*, uint64_t);
    int get_ret_size;        /* sizeof the dedicated getter's return type */
    const char* get_sym;
    const char* set_sym;
} FieldBinding;
typedef struct { const char* kind; const char* name; long value; } Fact;
typedef struct {
    const char* view;
    const char* header;
    const char* len_macro;
    long header_len;         /* value of the published header-length macro */
    long sizeof_type;
    long payload_offset;
    long field_max;
    uint64_t (*gget)(void*, long);
    void (*gset)(void*, long, uint64_t);
    void (*init)(void*);
    uint8_t* (*payload)(void*);
    int (*lget)(void*, long, uint64_t*);
    int (*lset)(void*, long, uint64_t);
    int (*linit)(void*, uint64_t);
    int nfields;
    const FieldBinding* fields;
    const Fact* facts;
    int (*lget_raw)(void*, long, void*);   /* deprecated getter with the caller's own result pointer (may point into the PDU) */
} ViewBinding;
extern const ViewBinding* const all_views[];
#endif
