/*
 * xh.c - harness for the example programs (C18, C19).  One binary per program, selected by
 * -DXH_<PROG>; the example source is compiled by textual inclusion with `main` renamed and
 * recv / write / read / sendto / clock_gettime replaced by macros - no file of the repository is
 * modified.  No expected values here: datagrams / frames in, observations out.
 *
 * stdin commands:
 *   L <m0> <m1> <m2> <hex> [<hex> ...]      listener: deliver the datagrams, in order, to the receive
 *                                           path (modes m0..m2: program specific, see below)
 *   T <tscf> <udp> <fd> <count> <framehex> [...]   talker (acf-can): frames read from the CAN side
 * stdout (one line per command):
 *   R <status> <n> <ret,ret,..> <out,out,..>
 *     status: ok | signal:<n> | timeout | exit:<code>      (of the child that ran the sequence)
 *     n: datagrams whose handling completed;  ret: handler return values (or '-')
 *     out: listener acf-can: frames written to the CAN side (hex, '|' separates datagrams)
 *          talker: packets handed to sendto (hex)
 * Every sequence runs in a forked child with a watchdog, so crashes and hangs are observations.
 */
#define _GNU_SOURCE
#include <stdio.h>
#include <stdlib.h>
#include <string.h>
#include <stdint.h>
#include <stdbool.h>
#include <unistd.h>
#include <signal.h>
#include <setjmp.h>
#include <errno.h>
#include <poll.h>
#include <time.h>
#include <alloca.h>
#include <argp.h>
#include <inttypes.h>
#include <sys/types.h>
#include <sys/socket.h>
#include <sys/wait.h>
#include <sys/resource.h>
#include <sys/queue.h>
#include <sys/timerfd.h>
#include <sys/ioctl.h>
#include <arpa/inet.h>
#include <net/if.h>
#include <linux/if_packet.h>
#include <linux/if_ether.h>
#include <linux/can.h>
#include <linux/can/raw.h>
#include <math.h>
#include <fcntl.h>
#include <stdarg.h>

/* examples/common/common.c is compiled in here with its socket creators renamed; the names the
 * examples call are defined below as stubs (the headers have no include guards, so they cannot be
 * hidden behind macros). */
static int x_capture_stdout;                      /* queue mode of the stream listeners: what present_data() writes is an observation */
static ssize_t x_write_common(int fd, const void* buf, size_t n);
#define write x_write_common
/* queue mode: the clock read by get_presentation_time() stands still at a multiple of 2^32 ns, so that the distance to a packet's
 * presentation time is its avtp_timestamp itself and the generated timestamps can aim at the carries of the timespec arithmetic */
static unsigned long long x_fixed_now_ns;
static int x_clock_gettime_common(clockid_t c, struct timespec* ts);
#define clock_gettime x_clock_gettime_common
#define create_listener_socket_udp real_create_listener_socket_udp
#define create_listener_socket real_create_listener_socket
#define create_talker_socket_udp real_create_talker_socket_udp
#define create_talker_socket real_create_talker_socket
#define setup_udp_socket_address real_setup_udp_socket_address
#define setup_socket_address real_setup_socket_address
#include "common/common.c"
#undef write
#undef clock_gettime
#undef create_listener_socket_udp
#undef create_listener_socket
#undef create_talker_socket_udp
#undef create_talker_socket
#undef setup_udp_socket_address
#undef setup_socket_address

#define XMAXD 9000
static uint8_t* x_dg[XMAXD]; static size_t x_len[XMAXD]; static int x_nd, x_cur;
static int x_report = -1;                 /* pipe to the parent */
static void x_say(const char* fmt, ...)
{
    char b[256]; va_list ap; va_start(ap, fmt); int n = vsnprintf(b, sizeof b, fmt, ap); va_end(ap);
    if (x_report >= 0 && n > 0) { ssize_t w = write(x_report, b, (size_t)n); (void)w; }
}
static void x_sayhex(const char* tag, const void* p, size_t n)
{
    static const char* d = "0123456789abcdef"; char* b = malloc(2 * n + 16); size_t k = 0;
    k += (size_t)sprintf(b, "%s ", tag);
    for (size_t i = 0; i < n; i++) { b[k++] = d[((const uint8_t*)p)[i] >> 4]; b[k++] = d[((const uint8_t*)p)[i] & 15]; }
    if (!n) b[k++] = '-';
    b[k++] = '\n';
    if (x_report >= 0) { ssize_t w = write(x_report, b, k); (void)w; }
    free(b);
}
static int x_clock_gettime_common(clockid_t c, struct timespec* ts)
{
    if (!x_fixed_now_ns) return clock_gettime(c, ts);
    ts->tv_sec = (time_t)(x_fixed_now_ns / 1000000000ULL); ts->tv_nsec = (long)(x_fixed_now_ns % 1000000000ULL);
    return 0;
}
static ssize_t x_write_common(int fd, const void* buf, size_t n)
{
    if (fd == STDOUT_FILENO && x_capture_stdout) { x_sayhex("W", buf, n); return (ssize_t)n; }
    return write(fd, buf, n);
}
static ssize_t x_read_timer(int fd, void* buf, size_t n)        /* timeout() reads the number of expirations from its timerfd */
{
    (void)fd; uint64_t one = 1;
    if (n >= sizeof one) { memcpy(buf, &one, sizeof one); return (ssize_t)sizeof one; }
    return -1;
}
/* POSIX leaves errno unspecified after a successful call: the intercepted calls leave a different stale value behind each time
 * (EINTR, EAGAIN, 0, EBADF), as a restarted or earlier failed call would; a program must not consult errno after success */
static void x_stale_errno(void) { static const int vals[4] = { EINTR, EAGAIN, 0, EBADF }; static unsigned k; errno = vals[k++ & 3]; }
static jmp_buf x_end; static int x_end_armed;
/* datagram source for every listener */
static FILE* x_of; static long x_ooff;      /* text mode of the main-loop listeners: stdout is captured and reported per datagram */
static void x_text_report(void)
{
    if (!x_of) return;
    static uint8_t tb[1 << 16];
    fflush(stdout);
    fseek(x_of, x_ooff, SEEK_SET); size_t k = fread(tb, 1, sizeof tb, x_of); x_ooff += (long)k;
    if (x_cur > 0) { if (k) x_sayhex("W", tb, k); x_say("D %d 0\n", x_cur - 1); }
}
static ssize_t x_recv(int fd, void* buf, size_t n, int flags)
{
    (void)fd; (void)flags;
    x_text_report();
    if (x_cur >= x_nd) { if (x_end_armed) longjmp(x_end, 1); return -1; }
    size_t l = x_len[x_cur] < n ? x_len[x_cur] : n;
    memcpy(buf, x_dg[x_cur], l);
    x_cur++;
    x_stale_errno();
    return (ssize_t)l;
}
/* CAN side of the acf-can programs */
#define X_CAN_FD 1001
#define X_NET_FD 1002
static ssize_t x_write(int fd, const void* buf, size_t n)
{
    if (fd == X_CAN_FD) { x_sayhex("W", buf, n); x_stale_errno(); return (ssize_t)n; }
    return write(fd, buf, n);
}
static ssize_t x_read(int fd, void* buf, size_t n)
{
    if (fd == X_CAN_FD) {
        if (x_cur >= x_nd) longjmp(x_end, 1);
        size_t l = x_len[x_cur] < n ? x_len[x_cur] : n;
        memcpy(buf, x_dg[x_cur], l); x_cur++;
        x_stale_errno();
        return (ssize_t)l;
    }
    return read(fd, buf, n);
}
static ssize_t x_sendto(int fd, const void* buf, size_t n, int flags, const struct sockaddr* a, socklen_t al)
{
    (void)fd; (void)flags; (void)a; (void)al;
    x_sayhex("P", buf, n);
    x_stale_errno();
    return (ssize_t)n;
}
static int x_maxpk = 0, x_npk = 0;
static ssize_t x_sendto_n(int fd, const void* buf, size_t n, int flags, const struct sockaddr* a, socklen_t al)
{
    (void)fd; (void)flags; (void)a; (void)al;
    x_sayhex("P", buf, n);
    if (++x_npk >= x_maxpk && x_end_armed) longjmp(x_end, 1);
    return (ssize_t)n;
}
static ssize_t x_read_stdin(int fd, void* buf, size_t n)
{
    if (fd == 0) {                               /* STDIN of the stream talkers: the audio / video source */
        if (x_cur >= x_nd) return 0;
        size_t l = x_len[x_cur] < n ? x_len[x_cur] : n;
        memcpy(buf, x_dg[x_cur], l); x_sayhex("I", buf, l); x_cur++;
        return (ssize_t)l;
    }
    return read(fd, buf, n);
}
static unsigned x_sleep(unsigned s) { (void)s; return 0; }
static int x_clock_nanosleep(clockid_t c, int f, const struct timespec* r, struct timespec* rem) { (void)c; (void)f; (void)r; (void)rem; return 0; }
static int x_clock_gettime(clockid_t c, struct timespec* ts) { (void)c; ts->tv_sec = 1700000000; ts->tv_nsec = 123456789; return 0; }
static int x_close(int fd) { (void)fd; return 0; }

/* ---- the macro layer seen by the example source */
#define main example_main
#define recv x_recv
#define close x_close
#define argp_parse(a, b, c, d, e, f) ((void)0)

#if defined(XH_CAN_LISTENER)
#define write x_write
#include "acf-can/acf-can-listener.c"
#undef write
#define XH_LISTENER 1
static int x_handle(int* m) { use_udp = (uint8_t)m[0]; can_variant = m[1] ? AVTP_CAN_FD : AVTP_CAN_CLASSIC; return new_packet(X_NET_FD, X_CAN_FD); }
#elif defined(XH_CAN_TALKER)
#define read x_read
#define sendto x_sendto
#define clock_gettime x_clock_gettime
#include "acf-can/acf-can-talker.c"
#undef read
#undef sendto
#undef clock_gettime
#elif defined(XH_AAF_TALKER) || defined(XH_CRF_TALKER) || defined(XH_HELLO_TALKER) || defined(XH_VSS_TALKER) || defined(XH_CVF_TALKER)
#define read x_read_stdin
#define sendto x_sendto_n
#define sleep x_sleep
#define clock_nanosleep x_clock_nanosleep
#if defined(XH_AAF_TALKER)
#include "aaf/aaf-talker.c"
#elif defined(XH_CRF_TALKER)
#include "crf/crf-talker.c"
#elif defined(XH_CVF_TALKER)
#include "cvf/cvf-talker.c"
#elif defined(XH_HELLO_TALKER)
#include "hello-world/hello-world-talker.c"
#define XH_CF_TALKER 1
#else
#include "acf-vss/acf-vss-talker.c"
#define XH_CF_TALKER 1
#endif
#undef read
#undef sendto
#undef sleep
#undef clock_nanosleep
#define XH_STREAM_TALKER 1
#elif defined(XH_CVF_LISTENER)
#define read x_read_timer
#include "cvf/cvf-listener.c"
#undef read
#define XH_LISTENER 1
#define XH_QUEUE 1
static int x_tfd = -1;
static int x_handle(int* m) { (void)m; if (x_tfd < 0) { x_tfd = timerfd_create(CLOCK_REALTIME, 0); STAILQ_INIT(&nals); } return new_packet(X_NET_FD, x_tfd); }
static int x_timeout(void) { return timeout(x_tfd); }
#elif defined(XH_AAF_LISTENER)
#define read x_read_timer
#include "aaf/aaf-listener.c"
#undef read
#define XH_LISTENER 1
#define XH_QUEUE 1
static int x_tfd = -1;
static int x_handle(int* m) { (void)m; if (x_tfd < 0) { x_tfd = timerfd_create(CLOCK_REALTIME, 0); STAILQ_INIT(&samples); } return new_packet(X_NET_FD, x_tfd); }
static int x_timeout(void) { return timeout(x_tfd); }
#elif defined(XH_CRF_LISTENER)
#include "crf/crf-listener.c"
#define XH_LISTENER 1
static int x_tfd = -1;
static int x_handle(int* m)
{
    if (x_tfd < 0) { x_tfd = timerfd_create(CLOCK_REALTIME, 0); STAILQ_INIT(&mclk_timestamps); }
    return m[0] ? aaf_talker_recv_pdu(X_NET_FD, x_tfd) : aaf_listener_recv_pdu(X_NET_FD);
}
#elif defined(XH_HELLO_LISTENER)
#include "hello-world/hello-world-listener.c"
#define XH_MAINLOOP 1
static void x_modes(int* m) { use_udp = (uint8_t)m[0]; }
#elif defined(XH_VSS_LISTENER)
#include "acf-vss/acf-vss-listener.c"
#define XH_MAINLOOP 1
static void x_modes(int* m) { use_udp = (uint8_t)m[0]; }
#else
#error "select a program with -DXH_..."
#endif
#undef main
#undef recv
#undef close

/* stubs for the socket set-up helpers */
int create_listener_socket_udp(uint32_t udp_port) { (void)udp_port; return X_NET_FD; }
int create_listener_socket(char* ifname, uint8_t macaddr[], int protocol) { (void)ifname; (void)macaddr; (void)protocol; return X_NET_FD; }
int create_talker_socket(int priority) { (void)priority; return X_NET_FD; }
int create_talker_socket_udp(int priority) { (void)priority; return X_NET_FD; }
int setup_socket_address(int fd, const char* ifname, uint8_t macaddr[], int protocol, struct sockaddr_ll* sk_addr)
{ (void)fd; (void)ifname; (void)macaddr; (void)protocol; memset(sk_addr, 0, sizeof *sk_addr); return 0; }
int setup_udp_socket_address(struct in_addr* addr, uint32_t port, struct sockaddr_in* sk_addr)
{ (void)addr; (void)port; memset(sk_addr, 0, sizeof *sk_addr); return 0; }
#if defined(XH_CAN_LISTENER) || defined(XH_CAN_TALKER)
int setup_can_socket(const char* can_ifname, Avtp_CanVariant_t can_variant) { (void)can_ifname; (void)can_variant; return X_CAN_FD; }
#endif

/* ambient state of the process: m2 = 3 runs the listener as if started from an interactive terminal (stdin/stdout are terminals) */
static int x_tty;
int isatty(int fd) { return x_tty && (fd == 0 || fd == 1); }
static int hexv(int c) { return c <= '9' ? c - '0' : (c | 32) - 'a' + 10; }
static size_t unhex_(const char* s, uint8_t* out, size_t max)
{
    size_t n = 0; if (s[0] == '-') return 0;
    while (s[0] && s[1] && n < max) { out[n++] = (uint8_t)(hexv(s[0]) * 16 + hexv(s[1])); s += 2; }
    return n;
}

static void child(char** tok, int nt)
{
    int m[3] = { atoi(tok[1]), atoi(tok[2]), atoi(tok[3]) };
    int devnull = open("/dev/null", O_WRONLY);
    if (devnull >= 0) { dup2(devnull, 1); }
    if (m[2] == 3) x_tty = 1;
    if (m[2] == 2) {          /* soak mode: a long run of datagrams with a small stack, so that per-datagram growth shows early */
        struct rlimit rl; rl.rlim_cur = rl.rlim_max = 1024 * 1024; setrlimit(RLIMIT_STACK, &rl);
    }
#if defined(XH_MAINLOOP)
    if (m[2] == 1) { x_of = tmpfile(); if (x_of) dup2(fileno(x_of), 1); }
#endif
#if defined(XH_LISTENER)
    (void)nt;
#if defined(XH_QUEUE)
    /* queue mode (m[2] = 1): a zero-length token is a timer expiration; stdout of present_data() and the number of
     * "Sequence number mismatch" diagnostics per datagram are observations */
    FILE* ef = NULL; int saved2 = -1; long eoff = 0;
    if (m[2] == 1) { x_capture_stdout = 1; x_fixed_now_ns = 395812103ULL << 32; ef = tmpfile(); saved2 = dup(2); if (ef) dup2(fileno(ef), 2); }
#endif
    for (int i = 0; i < x_nd; i++) {
        int before = x_cur;
        int r;
#if defined(XH_QUEUE)
        if (m[2] == 1 && x_len[i] == 0) { x_cur = i + 1; r = x_timeout(); x_say("D %d %d\n", i, r); continue; }
#endif
        r = x_handle(m);
        if (x_cur == before) x_cur = before + 1;         /* handler did not even read: count it as consumed */
#if defined(XH_QUEUE)
        if (ef) {
            fflush(stderr);
            static char eb[1 << 16]; int cnt = 0;
            fseek(ef, eoff, SEEK_SET); size_t k = fread(eb, 1, sizeof eb - 1, ef); eb[k] = 0; eoff += (long)k;
            for (char* q_ = eb; (q_ = strstr(q_, "Sequence number mismatch")) != NULL; q_++) cnt++;
            x_say("E E%d\n", cnt);
        }
#endif
        x_say("D %d %d\n", i, r);
    }
#if defined(XH_QUEUE)
    if (ef && saved2 >= 0) {          /* hand the diagnostics (and sanitizer reports) on to the real stderr */
        fflush(stderr); static char eb2[1 << 16]; size_t k; fseek(ef, 0, SEEK_SET);
        while ((k = fread(eb2, 1, sizeof eb2, ef)) > 0) { ssize_t w = write(saved2, eb2, k); (void)w; }
    }
#endif
#elif defined(XH_MAINLOOP)
    (void)nt;
    x_modes(m);
    x_end_armed = 0;
    char* argv0[] = { "prog", NULL };
    int r = example_main(1, argv0);                        /* leaves through its own error path when recv fails */
    x_say("M %d %d\n", x_cur, r);
#elif defined(XH_STREAM_TALKER)
    (void)nt;
#if defined(XH_CF_TALKER)
    use_tscf = (uint8_t)m[0]; use_udp = (uint8_t)m[1];
#endif
    x_maxpk = atoi(tok[4]);
    char* argv0[] = { "prog", NULL };
    if (setjmp(x_end) == 0) { x_end_armed = 1; example_main(1, argv0); }
    x_say("M %d 0\n", x_npk);
#elif defined(XH_CAN_TALKER)
    use_tscf = (uint8_t)m[0]; use_udp = (uint8_t)m[1]; can_variant = m[2] ? AVTP_CAN_FD : AVTP_CAN_CLASSIC;
    num_acf_msgs = (uint8_t)atoi(tok[4]);
    (void)nt;
    char* argv0[] = { "prog", NULL };
    if (setjmp(x_end) == 0) { x_end_armed = 1; example_main(1, argv0); }
    x_say("M %d 0\n", x_cur);
#endif
    _exit(0);
}

int main(void)
{
    static char line[1 << 20];
    signal(SIGPIPE, SIG_IGN);
    while (fgets(line, sizeof line, stdin)) {
        char* tok[XMAXD + 8]; int nt = 0;
        for (char* p = strtok(line, " \t\r\n"); p && nt < XMAXD + 8; p = strtok(NULL, " \t\r\n")) tok[nt++] = p;
        if (nt < 4) continue;
        int first = (tok[0][0] == 'T') ? 5 : 4;
        x_nd = 0; x_cur = 0;
        for (int i = first; i < nt && x_nd < XMAXD; i++) {
            if (tok[i][0] == '*' && x_nd > 0) {          /* "*N": the previous datagram N times in all */
                int rep = atoi(tok[i] + 1);
                for (int k = 1; k < rep && x_nd < XMAXD; k++) {
                    x_dg[x_nd] = malloc(x_len[x_nd - 1] + 1); memcpy(x_dg[x_nd], x_dg[x_nd - 1], x_len[x_nd - 1]); x_len[x_nd] = x_len[x_nd - 1]; x_nd++;
                }
                continue;
            }
            size_t l = strlen(tok[i]) / 2 + 1;
            x_dg[x_nd] = malloc(l); x_len[x_nd] = unhex_(tok[i], x_dg[x_nd], l); x_nd++;
        }
        int pfd[2]; if (pipe(pfd)) return 3;
        static int cmdno; fprintf(stderr, "\n##CMD %d\n", cmdno++); fflush(stderr);
        fflush(stdout);
        pid_t pid = fork();
        if (pid == 0) { close(pfd[0]); x_report = pfd[1]; alarm(x_nd > 2000 ? 40 : 8); child(tok, nt); _exit(0); }
        close(pfd[1]);
        /* collect the child's reports */
        static char rep[1 << 22]; size_t rn = 0; ssize_t k;
        while ((k = read(pfd[0], rep + rn, sizeof rep - rn - 1)) > 0) rn += (size_t)k;
        rep[rn] = 0; close(pfd[0]);
        int st = 0; waitpid(pid, &st, 0);
        char status[32];
        if (WIFSIGNALED(st)) { if (WTERMSIG(st) == SIGALRM) strcpy(status, "timeout"); else snprintf(status, sizeof status, "signal:%d", WTERMSIG(st)); }
        else if (WEXITSTATUS(st) != 0) snprintf(status, sizeof status, "exit:%d", WEXITSTATUS(st));
        else strcpy(status, "ok");
        /* digest: D i ret | W hex | P hex | M n ret */
        int done = 0; static char rets[1 << 17]; size_t rl = 0; rets[0] = 0;
        printf("R %s ", status);
        static char outs[1 << 22]; size_t ol = 0;
        for (char* ln = strtok(rep, "\n"); ln; ln = strtok(NULL, "\n")) {
            if (ln[0] == 'D') { int i, r; sscanf(ln + 2, "%d %d", &i, &r); done = i + 1; if (rl + 16 < sizeof rets) rl += (size_t)snprintf(rets + rl, sizeof rets - rl, "%s%d", rl ? "," : "", r); outs[ol++] = '|'; }
            else if (ln[0] == 'M') { int i, r; sscanf(ln + 2, "%d %d", &i, &r); done = i; if (rl + 16 < sizeof rets) rl += (size_t)snprintf(rets + rl, sizeof rets - rl, "%s%d", rl ? "," : "", r); }
            else if (ln[0] == 'I') { size_t l = strlen(ln + 2); if (ol && outs[ol - 1] != '|' ) outs[ol++] = ','; outs[ol++] = 'i'; memcpy(outs + ol, ln + 2, l); ol += l; }
            else if (ln[0] == 'W' || ln[0] == 'P' || ln[0] == 'E') { size_t l = strlen(ln + 2); if (ol && outs[ol - 1] != '|' ) outs[ol++] = ','; memcpy(outs + ol, ln + 2, l); ol += l; }
        }
        outs[ol] = 0;
        printf("%d %s %s\n", done, rl ? rets : "-", ol ? outs : "-");
        fflush(stdout);
        for (int i = 0; i < x_nd; i++) free(x_dg[i]);
    }
    return 0;
}
