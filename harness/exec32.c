/*
 * exec32.c - the header-operation executor for an ILP32 data model (int, long, pointers and size_t are 32 bit).
 * No 32-bit C library exists in the sandbox, so this is a freestanding program (gcc -m32 -ffreestanding -nostdlib -static)
 * with its own few string functions and raw system calls; the library sources and the generated bindings are compiled
 * with it unchanged.  It understands the X command of exec.c (placement is ignored: one static arena), the Y command
 * (raw descriptors) and the BO command (byte-order helpers) and answers in the same format.  No expected values here either.
 */
#include <stdint.h>
#include <stddef.h>
#include "verif_bind.h"
#include "avtp/Utils.h"
int errno;
void *memcpy(void *d, const void *s, size_t n) { uint8_t* a = d; const uint8_t* b = s; while (n--) *a++ = *b++; return d; }
void *memmove(void *d, const void *s, size_t n) { uint8_t* a = d; const uint8_t* b = s; if (a < b) while (n--) *a++ = *b++; else { a += n; b += n; while (n--) *--a = *--b; } return d; }
void *memset(void *d, int c, size_t n) { uint8_t* a = d; while (n--) *a++ = (uint8_t)c; return d; }
int memcmp(const void *x, const void *y, size_t n) { const uint8_t* a = x; const uint8_t* b = y; for (; n--; a++, b++) if (*a != *b) return *a - *b; return 0; }
size_t strlen(const char *s) { size_t n = 0; while (s[n]) n++; return n; }
int strcmp(const char *a, const char *b) { while (*a && *a == *b) { a++; b++; } return (uint8_t)*a - (uint8_t)*b; }
int strncmp(const char *a, const char *b, size_t n) { while (n && *a && *a == *b) { a++; b++; n--; } return n ? (uint8_t)*a - (uint8_t)*b : 0; }
char *strncpy(char *d, const char *s, size_t n) { size_t i = 0; for (; i < n && s[i]; i++) d[i] = s[i]; for (; i < n; i++) d[i] = 0; return d; }

static long sys3(long nr, long a, long b, long c) { long r; __asm__ volatile ("int $0x80" : "=a"(r) : "a"(nr), "b"(a), "c"(b), "d"(c) : "memory"); return r; }
static char obuf[1 << 16]; static size_t on;
static void oflush(void) { size_t k = 0; while (k < on) { long w = sys3(4, 1, (long)(obuf + k), (long)(on - k)); if (w <= 0) break; k += (size_t)w; } on = 0; }
static void oc(char c) { if (on == sizeof obuf) oflush(); obuf[on++] = c; }
static void os(const char* s) { while (*s) oc(*s++); }
static void ohex(const uint8_t* p, size_t n) { static const char* d = "0123456789abcdef"; if (!n) { oc('-'); return; } for (size_t i = 0; i < n; i++) { oc(d[p[i] >> 4]); oc(d[p[i] & 15]); } }
static void o64(uint64_t v) { uint8_t b[8]; for (int i = 7; i >= 0; i--) { b[i] = (uint8_t)v; v >>= 8; } ohex(b, 8); }
static void odec(long v) { char t[16]; int k = 0; unsigned long u = v < 0 ? (unsigned long)(-v) : (unsigned long)v; if (v < 0) oc('-'); do { t[k++] = (char)('0' + u % 10); u /= 10; } while (u); while (k) oc(t[--k]); }
static int hexv(int c) { return c <= '9' ? c - '0' : (c | 32) - 'a' + 10; }
static size_t unhex(const char* s, uint8_t* out, size_t max) { size_t n = 0; if (s[0] == '-') return 0; while (s[0] && s[1] && n < max) { out[n++] = (uint8_t)(hexv(s[0]) * 16 + hexv(s[1])); s += 2; } return n; }
static long atol_(const char* s) { long v = 0; int neg = 0; if (*s == '-') { neg = 1; s++; } while (*s >= '0' && *s <= '9') v = v * 10 + (*s++ - '0'); return neg ? -v : v; }
/* identifiers above 2^31 arrive as decimal text: keep all 32 bits */
static unsigned long atoul_(const char* s) { unsigned long v = 0; while (*s >= '0' && *s <= '9') v = v * 10 + (unsigned long)(*s++ - '0'); return v; }
static uint64_t be64(const uint8_t* p) { uint64_t v = 0; for (int i = 0; i < 8; i++) v = (v << 8) | p[i]; return v; }

static const ViewBinding* find_view(const char* name) { for (int i = 0; all_views[i]; i++) if (!strcmp(all_views[i]->view, name)) return all_views[i]; return 0; }
#define OUT_SENTINEL 0xA55AA55AA55AA55AULL
static uint8_t arena[8192 + 64];

static void cmd_x(char** tok)
{   /* X view op path fidx id val16 base place off arenahex */
    const ViewBinding* v = find_view(tok[1]); const char* op = tok[2]; const char* path = tok[3];
    long fidx = atol_(tok[4]); unsigned long id = tok[5][0] == '-' ? (unsigned long)atol_(tok[5]) : atoul_(tok[5]);
    uint8_t vb[8]; unhex(tok[6], vb, 8); uint64_t val = be64(vb); long base = atol_(tok[7]);
    uint8_t* a = arena + 32; size_t alen = unhex(tok[10], a, 8192);
    uint64_t ret = 0, out = OUT_SENTINEL; long rc = 0; int nobind = 0;
    if (!v) { os("R nobind 0000000000000000 0 0000000000000000 - 0\n"); return; }
    const FieldBinding* f = (fidx >= 0 && fidx < v->nfields) ? &v->fields[fidx] : 0;
    int generic = !strcmp(path, "generic"), dedicated = !strcmp(path, "dedicated"), legacy = !strcmp(path, "legacy");
    uint8_t* hdr = a + base; if (!strncmp(op, "null", 4)) hdr = 0;
    if (!strcmp(op, "get") || !strcmp(op, "nullget") || !strcmp(op, "badget") || !strcmp(op, "nullout")) {
        long fid = !strcmp(op, "badget") ? (long)id : (f ? f->id : -1);
        if (generic) { if (!v->gget) nobind = 1; else ret = v->gget(hdr, fid); }
        else if (dedicated) { if (!f || !f->get) nobind = 1; else ret = f->get(hdr); }
        else if (legacy) { if (!v->lget) nobind = 1; else rc = v->lget(hdr, fid, !strcmp(op, "nullout") ? 0 : &out); }
        else nobind = 1;
    } else if (!strcmp(op, "set") || !strcmp(op, "nullset") || !strcmp(op, "badset")) {
        long fid = !strcmp(op, "badset") ? (long)id : (f ? f->id : -1);
        if (generic) { if (!v->gset) nobind = 1; else v->gset(hdr, fid, val); }
        else if (dedicated) { if (!f || !f->set) nobind = 1; else f->set(hdr, val); }
        else if (legacy) { if (!v->lset) nobind = 1; else rc = v->lset(hdr, fid, val); }
        else nobind = 1;
    } else if (!strcmp(op, "init") || !strcmp(op, "nullinit")) {
        if (legacy) { if (!v->linit) nobind = 1; else rc = v->linit(hdr, val); } else { if (!v->init) nobind = 1; else v->init(hdr); }
    } else if (!strcmp(op, "getalias")) { if (!v->lget_raw || !f) nobind = 1; else rc = v->lget_raw(hdr, f->id, hdr + (long)val); }
    else if (!strcmp(op, "payload")) { if (!v->payload) nobind = 1; else ret = (uint64_t)(size_t)(v->payload(hdr) - hdr); }
    else nobind = 1;
    os(nobind ? "R nobind " : "R ok "); o64(ret); oc(' '); odec(rc); oc(' '); o64(out); oc(' '); ohex(a, alen); os(" 0\n");
}
static void cmd_y(char** tok)
{   /* Y op q off w val16 base place poff arenahex */
    Avtp_FieldDescriptor_t tab[3]; uint8_t vb[8];
    tab[0].quadlet = 0; tab[0].offset = 0; tab[0].bits = 8;
    tab[1].quadlet = (uint8_t)atol_(tok[2]); tab[1].offset = (uint8_t)atol_(tok[3]); tab[1].bits = (uint8_t)atol_(tok[4]);
    tab[2].quadlet = 1; tab[2].offset = 4; tab[2].bits = 12;
    uint8_t vb2[16]; memset(vb2, 0, 16); unhex(tok[5], vb2, 16); memcpy(vb, vb2, 8); uint64_t val = be64(vb), val2 = be64(vb2 + 8); long base = atol_(tok[6]);
    uint8_t* a = arena + 32; size_t alen = unhex(tok[9], a, 8192); uint64_t ret = 0, r0 = 0, r1 = 0; uint8_t* hdr = a + base;
    if (!strcmp(tok[1], "gsg")) {
        r0 = Avtp_GetField(tab, 3, hdr, 1); Avtp_SetField(tab, 3, hdr, 1, val); r1 = Avtp_GetField(tab, 3, hdr, 1);
        Avtp_SetField(tab, 3, hdr, 1, val2); ret = Avtp_GetField(tab, 3, hdr, 1);
        os("R ok "); o64(ret); os(" 0 "); o64(r1); oc(' '); ohex(a, alen); os(" 0 r0="); o64(r0); oc('\n'); return;
    }
    if (!strcmp(tok[1], "set")) Avtp_SetField(tab, 3, hdr, 1, val); else ret = Avtp_GetField(tab, 3, hdr, 1);
    os("R ok "); o64(ret); os(" 0 0000000000000000 "); ohex(a, alen); os(" 0\n");
}
#include "avtp/Byteorder.h"
static void cmd_bo(char** tok)
{   /* BO fn size xhex  ->  R ok val=<logical value> img=<memory image> (exec_ext.c) */
    const char* fn = tok[1]; int size = (int)atol_(tok[2]);
    uint8_t xb[8] = {0}, vb[8], img[8];
    unhex(tok[3], xb, 8);
    uint64_t x = 0; for (int i = 0; i < size; i++) x = (x << 8) | xb[i];
    uint64_t r = 0; int ok = 1;
#define DISPATCH(bits, T) \
    if (!strcmp(fn, "CpuToBe")) { T y = Avtp_CpuToBe##bits((T)x); memcpy(img, &y, sizeof y); r = y; } \
    else if (!strcmp(fn, "BeToCpu")) { T y = Avtp_BeToCpu##bits((T)x); memcpy(img, &y, sizeof y); r = y; } \
    else if (!strcmp(fn, "CpuToLe")) { T y = Avtp_CpuToLe##bits((T)x); memcpy(img, &y, sizeof y); r = y; } \
    else if (!strcmp(fn, "LeToCpu")) { T y = Avtp_LeToCpu##bits((T)x); memcpy(img, &y, sizeof y); r = y; } \
    else if (!strcmp(fn, "Bswap")) { T y = Avtp_Bswap##bits((T)x); memcpy(img, &y, sizeof y); r = y; } \
    else ok = 0;
    if (size == 2) { DISPATCH(16, uint16_t) } else if (size == 4) { DISPATCH(32, uint32_t) } else if (size == 8) { DISPATCH(64, uint64_t) } else ok = 0;
    if (!ok) { os("R nobind\n"); return; }
    for (int i = size - 1; i >= 0; i--) { vb[i] = (uint8_t)r; r >>= 8; }
    os("R ok val="); ohex(vb, (size_t)size); os(" img="); ohex(img, (size_t)size); oc('\n');
}
static char inbuf[1 << 22];
void _start(void)
{
    size_t n = 0; long r;
    while (n < sizeof inbuf - 1 && (r = sys3(3, 0, (long)(inbuf + n), (long)(sizeof inbuf - 1 - n))) > 0) n += (size_t)r;
    inbuf[n] = 0;
    char* p = inbuf;
    while (*p) {
        char* tok[16]; int nt = 0; char* e = p; while (*e && *e != '\n') e++; char save = *e; *e = 0;
        for (char* q = p; *q && nt < 16; ) { while (*q == ' ') q++; if (!*q) break; tok[nt++] = q; while (*q && *q != ' ') q++; if (*q) *q++ = 0; }
        if (nt >= 11 && !strcmp(tok[0], "X")) cmd_x(tok);
        else if (nt >= 10 && !strcmp(tok[0], "Y")) cmd_y(tok);
        else if (nt >= 4 && !strcmp(tok[0], "BO")) cmd_bo(tok);
        else if (nt) os("E unknown\n");
        p = save ? e + 1 : e;
    }
    oflush();
    sys3(1, 0, 0, 0);
    for (;;) { }
}
