/*
 * exec32.c - the header-operation executor for an ILP32 data model (int, long, pointers and size_t are 32 bit).
 * No 32-bit C library exists in the sandbox, so this is a freestanding program (gcc -m32 -ffreestanding -nostdlib -static)
 * with its own few string functions and raw system calls; the library sources and the generated bindings are compiled
 * with it unchanged.  It understands the X command of exec.c (placement is ignored: one static arena) and, through exec_ext.c compiled
 * unchanged against a small runtime of its own, the Y, BO, CB, VS and SA commands (descriptors, byte-order helpers, CAN builders, VSS codec) and answers in the same format.  No expected values here either.
 */
#include <stdint.h>
#include <stddef.h>
#include "verif_bind.h"
#include "avtp/Utils.h"
int errno;
void *memcpy(void *d, const void *s, size_t n) { uint8_t* a = d; const uint8_t* b = s; while (n--) *a++ = *b++; return d; }
void *memmove(void *d, const void *s, size_t n) { uint8_t* a = d; const uint8_t* b = s; if (a < b) while (n--) *a++ = *b++; else { a += n; b += n; while (n--) *--a = *--b; } return d; }
void *memset(void *d, int c, size_t n) { uint8_t* a = d; while (n--) *a++ = (uint8_t)c; return d; }
int memcmp(const void *x, const void *y, size_t n) { const uint8_t* a = x; const uint8_t* b = y; for (; n--; a++, b++) if (*a != *b) return *a - *b; return 0; }
size_t strlen(const char *s) { size_t n = 0; while (s[n]) n++; return n; }
int strcmp(const char *a, const char *b) { while (*a && *a == *b) { a++; b++; } return (uint8_t)*a - (uint8_t)*b; }
int strncmp(const char *a, const char *b, size_t n) { while (n && *a && *a == *b) { a++; b++; n--; } return n ? (uint8_t)*a - (uint8_t)*b : 0; }
char *strncpy(char *d, const char *s, size_t n) { size_t i = 0; for (; i < n && s[i]; i++) d[i] = s[i]; for (; i < n; i++) d[i] = 0; return d; }

static long sys3(long nr, long a, long b, long c) { long r; __asm__ volatile ("int $0x80" : "=a"(r) : "a"(nr), "b"(a), "c"(b), "d"(c) : "memory"); return r; }
static char obuf[1 << 16]; static size_t on;
static void oflush(void) { size_t k = 0; while (k < on) { long w = sys3(4, 1, (long)(obuf + k), (long)(on - k)); if (w <= 0) break; k += (size_t)w; } on = 0; }
static void oc(char c) { if (on == sizeof obuf) oflush(); obuf[on++] = c; }
static void os(const char* s) { while (*s) oc(*s++); }
static void ohex(const uint8_t* p, size_t n) { static const char* d = "0123456789abcdef"; if (!n) { oc('-'); return; } for (size_t i = 0; i < n; i++) { oc(d[p[i] >> 4]); oc(d[p[i] & 15]); } }
static void o64(uint64_t v) { uint8_t b[8]; for (int i = 7; i >= 0; i--) { b[i] = (uint8_t)v; v >>= 8; } ohex(b, 8); }
static void odec(long v) { char t[16]; int k = 0; unsigned long u = v < 0 ? (unsigned long)(-v) : (unsigned long)v; if (v < 0) oc('-'); do { t[k++] = (char)('0' + u % 10); u /= 10; } while (u); while (k) oc(t[--k]); }
static int hexv(int c) { return c <= '9' ? c - '0' : (c | 32) - 'a' + 10; }
size_t unhex(const char* s, uint8_t* out, size_t max) { size_t n = 0; if (s[0] == '-') return 0; while (s[0] && s[1] && n < max) { out[n++] = (uint8_t)(hexv(s[0]) * 16 + hexv(s[1])); s += 2; } return n; }
static long atol_(const char* s) { long v = 0; int neg = 0; if (*s == '-') { neg = 1; s++; } while (*s >= '0' && *s <= '9') v = v * 10 + (*s++ - '0'); return neg ? -v : v; }
/* identifiers above 2^31 arrive as decimal text: keep all 32 bits */
static unsigned long atoul_(const char* s) { unsigned long v = 0; while (*s >= '0' && *s <= '9') v = v * 10 + (unsigned long)(*s++ - '0'); return v; }
static uint64_t be64(const uint8_t* p) { uint64_t v = 0; for (int i = 0; i < 8; i++) v = (v << 8) | p[i]; return v; }

static const ViewBinding* find_view(const char* name) { for (int i = 0; all_views[i]; i++) if (!strcmp(all_views[i]->view, name)) return all_views[i]; return 0; }
#define OUT_SENTINEL 0xA55AA55AA55AA55AULL
static uint8_t arena[8192 + 64];

static void cmd_x(char** tok)
{   /* X view op path fidx id val16 base place off arenahex */
    const ViewBinding* v = find_view(tok[1]); const char* op = tok[2]; const char* path = tok[3];
    long fidx = atol_(tok[4]); unsigned long id = tok[5][0] == '-' ? (unsigned long)atol_(tok[5]) : atoul_(tok[5]);
    uint8_t vb[8]; unhex(tok[6], vb, 8); uint64_t val = be64(vb); long base = atol_(tok[7]);
    uint8_t* a = arena + 32; size_t alen = unhex(tok[10], a, 8192);
    uint64_t ret = 0, out = OUT_SENTINEL; long rc = 0; int nobind = 0;
    if (!v) { os("R nobind 0000000000000000 0 0000000000000000 - 0\n"); return; }
    const FieldBinding* f = (fidx >= 0 && fidx < v->nfields) ? &v->fields[fidx] : 0;
    int generic = !strcmp(path, "generic"), dedicated = !strcmp(path, "dedicated"), legacy = !strcmp(path, "legacy");
    uint8_t* hdr = a + base; if (!strncmp(op, "null", 4)) hdr = 0;
    if (!strcmp(op, "get") || !strcmp(op, "nullget") || !strcmp(op, "badget") || !strcmp(op, "nullout")) {
        long fid = !strcmp(op, "badget") ? (long)id : (f ? f->id : -1);
        if (generic) { if (!v->gget) nobind = 1; else ret = v->gget(hdr, fid); }
        else if (dedicated) { if (!f || !f->get) nobind = 1; else ret = f->get(hdr); }
        else if (legacy) { if (!v->lget) nobind = 1; else rc = v->lget(hdr, fid, !strcmp(op, "nullout") ? 0 : &out); }
        else nobind = 1;
    } else if (!strcmp(op, "set") || !strcmp(op, "nullset") || !strcmp(op, "badset")) {
        long fid = !strcmp(op, "badset") ? (long)id : (f ? f->id : -1);
        if (generic) { if (!v->gset) nobind = 1; else v->gset(hdr, fid, val); }
        else if (dedicated) { if (!f || !f->set) nobind = 1; else f->set(hdr, val); }
        else if (legacy) { if (!v->lset) nobind = 1; else rc = v->lset(hdr, fid, val); }
        else nobind = 1;
    } else if (!strcmp(op, "init") || !strcmp(op, "nullinit")) {
        if (legacy) { if (!v->linit) nobind = 1; else rc = v->linit(hdr, val); } else { if (!v->init) nobind = 1; else v->init(hdr); }
    } else if (!strcmp(op, "getalias")) { if (!v->lget_raw || !f) nobind = 1; else rc = v->lget_raw(hdr, f->id, hdr + (long)val); }
    else if (!strcmp(op, "payload")) { if (!v->payload) nobind = 1; else ret = (uint64_t)(size_t)(v->payload(hdr) - hdr); }
    else nobind = 1;
    os(nobind ? "R nobind " : "R ok "); o64(ret); oc(' '); odec(rc); oc(' '); o64(out); oc(' '); ohex(a, alen); os(" 0\n");
}

/* ---- runtime of exec_ext.c (CAN builders, VSS codec, string arrays, raw descriptors, byte-order helpers) for this data model:
 * no placement (static arenas with canaries on both sides), no fault recovery (a dying process is attributed by the driver) */
#include <stdarg.h>
#include "exec_ext.h"
unsigned long long __udivmoddi4(unsigned long long n, unsigned long long d, unsigned long long* rem)
{   /* 64-bit division for the formatted output (no libgcc for -m32 here) */
    unsigned long long q = 0, r = 0;
    for (int i = 63; i >= 0; i--) { r = (r << 1) | ((n >> i) & 1); if (r >= d) { r -= d; q |= 1ULL << i; } }
    if (rem) *rem = r; return q;
}
unsigned long long __udivdi3(unsigned long long n, unsigned long long d) { return __udivmoddi4(n, d, 0); }
unsigned long long __umoddi3(unsigned long long n, unsigned long long d) { unsigned long long r; __udivmoddi4(n, d, &r); return r; }
char *strchr(const char *s, int c) { for (; *s; s++) if (*s == (char)c) return (char*)s; return c ? 0 : (char*)s; }
char *strcpy(char *d, const char *s) { char* r = d; while ((*d++ = *s++)) { } return r; }
int atoi(const char* s) { return (int)atol_(s); }
long atol(const char* s) { return atol_(s); }
int putchar(int c) { oc((char)c); return c; }
static void ou64(unsigned long long u, int width, char pad, int hex)
{
    char t[24]; int k = 0; static const char* d = "0123456789abcdef";
    do { if (hex) { t[k++] = d[u & 15]; u >>= 4; } else { unsigned long long r; u = __udivmoddi4(u, 10, &r); t[k++] = (char)('0' + r); } } while (u);
    while (k < width) t[k++] = pad;
    while (k) oc(t[--k]);
}
int printf(const char* f, ...)
{
    va_list ap; va_start(ap, f);
    for (; *f; f++) {
        if (*f != '%') { oc(*f); continue; }
        f++; char pad = ' '; int width = 0, lng = 0;
        if (*f == '0') { pad = '0'; f++; }
        while (*f >= '0' && *f <= '9') width = width * 10 + (*f++ - '0');
        while (*f == 'l' || *f == 'z') { lng += (*f == 'l'); f++; }
        if (*f == 's') os(va_arg(ap, const char*));
        else if (*f == 'c') oc((char)va_arg(ap, int));
        else if (*f == 'd') { long long v = lng >= 2 ? va_arg(ap, long long) : (long long)va_arg(ap, long); if (v < 0) { oc('-'); v = -v; } ou64((unsigned long long)v, width, pad, 0); }
        else if (*f == 'u' || *f == 'x') { unsigned long long v = lng >= 2 ? va_arg(ap, unsigned long long) : (unsigned long long)va_arg(ap, unsigned long); ou64(v, width, pad, *f == 'x'); }
        else if (*f == '%') oc('%');
    }
    va_end(ap); return 0;
}
int hexval(int c) { return hexv(c); }
void puthex(const uint8_t* p, size_t n) { ohex(p, n); }
#define CAN32 64
static uint8_t place32[CAN32 + EXT_MAXARENA + CAN32]; static size_t place_n;
static void canfill(uint8_t* p) { for (int i = 0; i < CAN32; i++) p[i] = (uint8_t)(0xC3 ^ i); }
static int canbad(const uint8_t* p) { for (int i = 0; i < CAN32; i++) if (p[i] != (uint8_t)(0xC3 ^ i)) return 1; return 0; }
uint8_t* ext_place(char place, long off, const uint8_t* bytes, size_t n)
{   (void)place; (void)off; place_n = n; canfill(place32); memcpy(place32 + CAN32, bytes, n); canfill(place32 + CAN32 + n); return place32 + CAN32; }
static uint8_t src32[EXT_MAXARENA + 16];
uint8_t* ext_source(const uint8_t* bytes, size_t n) { uint8_t* a = src32 + 8; memcpy(a, bytes, n); return a; }       /* 8-aligned: good for every element type */
uint8_t* ext_source_typed(const uint8_t* bytes, size_t n, size_t elem) { (void)elem; return ext_source(bytes, n); }
void ext_dest_hint(uint8_t* p) { (void)p; }
#define NDEST32 9
#define DSZ32 (66 * 1024)
static uint8_t dest32[NDEST32][DSZ32 + CAN32]; static size_t dest_cap[NDEST32];
uint8_t* ext_dest(int k, size_t cap, uint8_t fill)
{   if (k < 0 || k >= NDEST32 || cap > DSZ32) return 0; memset(dest32[k], fill, DSZ32); canfill(dest32[k] + DSZ32); dest_cap[k] = cap; return dest32[k] + DSZ32 - cap; }
int ext_dest_dirty(int k, size_t cap, uint8_t fill)
{   for (size_t i = 0; i < DSZ32 - cap; i++) if (dest32[k][i] != fill) return 1; return canbad(dest32[k] + DSZ32); }
int ext_call(void (*fn)(void*), void* ctx, char* status, size_t slen, uint8_t* arena)
{   (void)slen; (void)arena; strcpy(status, "ok"); errno = 0; fn(ctx); return 1; }
void ext_result(const char* status, uint64_t ret, long rc, uint64_t out, uint8_t* arena, size_t alen)
{
    os("R "); os(status); oc(' '); o64(ret); oc(' '); odec(rc); oc(' '); o64(out); oc(' '); ohex(arena, alen);
    int bad = (arena == place32 + CAN32) && (canbad(place32) || canbad(place32 + CAN32 + place_n));
    os(bad ? " 1" : " 0");
}
static char inbuf[1 << 22];
static void do_line(char* p)
{
    static char* tok[640]; int nt = 0;
    for (char* q = p; *q && nt < 640; ) { while (*q == ' ') q++; if (!*q) break; tok[nt++] = q; while (*q && *q != ' ') q++; if (*q) *q++ = 0; }
    if (nt >= 11 && !strcmp(tok[0], "X")) cmd_x(tok);
    else if (nt && exec_ext(tok, nt)) { }
    else if (nt) os("E unknown\n");
}
void _start(void)
{   /* the command stream is processed line by line as it arrives (batches are larger than any buffer) */
    size_t n = 0; long r; int eof = 0;
    while (!eof || n) {
        if (!eof) { r = sys3(3, 0, (long)(inbuf + n), (long)(sizeof inbuf - 1 - n)); if (r <= 0) eof = 1; else n += (size_t)r; }
        size_t start = 0;
        for (size_t i = 0; i < n; i++)
            if (inbuf[i] == '\n') { inbuf[i] = 0; do_line(inbuf + start); start = i + 1; }
        if (eof) { if (start < n) { inbuf[n] = 0; do_line(inbuf + start); } n = 0; }
        else if (start == 0 && n == sizeof inbuf - 1) { os("E line too long\n"); n = 0; }      /* a single line above 4 MiB: not produced by the drivers */
        else { memmove(inbuf, inbuf + start, n - start); n -= start; }
    }
    oflush();
    sys3(1, 0, 0, 0);
    for (;;) { }
}
