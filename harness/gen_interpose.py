#!/usr/bin/env python3
"""Generate an LD_PRELOAD interposer for the header-accessor API of the tree given as argv[1].

The repository's own unit tests are then run under it: every outermost library call they make is logged
(view, operation, field, path, header bytes before and after, result) as ndjson and validated by PduTrace -
the tests' executions become behaviours the specification must accept, with every invariant evaluated at
every step, not just the assertions the tests happen to contain.

usage: gen_interpose.py <repo> <outdir>      (one translation unit per public header + common part)
"""
import re, sys, os, glob
sys.path.insert(0, os.path.dirname(os.path.abspath(__file__)))
from gen_bindings import parse_header, field_name, norm, ACCESSOR_ALIAS

COMMON = r'''
#define _GNU_SOURCE
#include <dlfcn.h>
#include <stdio.h>
#include <stdlib.h>
#include <string.h>
#include <stdint.h>
__thread int o1722_depth;
static FILE* o1722_log;
static void o1722_open(void) { if (!o1722_log) { const char* p = getenv("O1722_TRACE"); o1722_log = p ? fopen(p, "a") : NULL; } }
static void arr(FILE* f, const uint8_t* p, size_t n) { fputc('[', f); for (size_t i = 0; i < n; i++) fprintf(f, "%s%u", i ? "," : "", p[i]); fputc(']', f); }
static void v64(FILE* f, uint64_t v) { uint8_t b[8]; for (int i = 7; i >= 0; i--) { b[i] = (uint8_t)v; v >>= 8; } arr(f, b, 8); }
void o1722_event(const char* view, const char* op, const char* field, const char* path, long id, long idmax, uint64_t val,
                 const uint8_t* pre, const uint8_t* post, size_t n, uint64_t ret, long rc, int has_out, uint64_t out)
{
    o1722_open(); if (!o1722_log) return;
    FILE* f = o1722_log;
    fprintf(f, "{\"e\":\"op\",\"buf\":0,\"base\":0,\"view\":\"%s\",\"op\":\"%s\",\"field\":\"%s\",\"path\":\"%s\",\"rawid\":%ld,\"idmax\":%ld,\"val\":", view, op, field, path, id, idmax);
    v64(f, val); fprintf(f, ",\"pre\":"); arr(f, pre, n); fprintf(f, ",\"post\":"); arr(f, post, n);
    fprintf(f, ",\"ret\":"); v64(f, ret); fprintf(f, ",\"rc\":%ld,\"out\":", -rc);
    if (has_out) v64(f, out); else fprintf(f, "[165,90,165,90,165,90,165,90]");
    fprintf(f, "}\n"); fflush(f);
}
'''

def gen(info, v, out):
    view, typ = v["view"], v["type"]
    lenm = v["lenmacro"]
    gget = next((p for p in info["protos"] if p["name"] == "Avtp_%s_GetField" % view), None)
    enum = None
    if gget and len(gget["args"]) >= 2:
        et = gget["args"][1].split()[0]
        enum = next((e for e in info["enums"] if e["type"] == et), None)
    if enum is None and info["enums"]: enum = info["enums"][0]
    if enum is None: return None
    names = enum["names"]
    maxname = next((n for n in names if n.endswith('_FIELD_MAX')), None)
    fields = [n for n in names if n != maxname]
    L = ['#define _GNU_SOURCE', '#include <dlfcn.h>', '#include <stdint.h>', '#include <string.h>', '#include <stddef.h>', '#include "%s"' % info["header"],
         'extern __thread int o1722_depth;',
         'void o1722_event(const char*, const char*, const char*, const char*, long, long, uint64_t, const uint8_t*, const uint8_t*, size_t, uint64_t, long, int, uint64_t);',
         '#define HL ((size_t)(%s))' % lenm, '#define IDMAX ((long)%s)' % (maxname or "0"),
         'static const char* fname(long id) { switch (id) {']
    for en in fields:
        L.append('  case %s: return "%s";' % (en, field_name(en)))
    L.append('  default: return ""; } }')
    A = L.append
    def wrap(p, body_kind, fld=None):
        name, ret, args = p["name"], p["ret"], p["args"]
        argnames = [re.sub(r'.*?(\w+)$', r'\1', a) for a in args]
        sig = "%s %s(%s)" % (ret, name, ", ".join(args))
        call = "real(%s)" % ", ".join(argnames)
        pdu = argnames[0]
        A(sig + " {")
        A("  static %s (*real)(%s); if (!real) real = (%s (*)(%s))dlsym(RTLD_NEXT, \"%s\");" % (ret, ", ".join(args), ret, ", ".join(args), name))
        A("  uint8_t pre[HL], post[HL]; int top = (o1722_depth++ == 0); memset(pre, 0, HL); memset(post, 0, HL);")
        A("  if (top && %s) memcpy(pre, (const void*)%s, HL);" % (pdu, pdu))
        if ret == "void": A("  %s;" % call)
        else: A("  %s r = %s;" % (ret, call))
        A("  o1722_depth--;")
        A("  if (top) { if (%s) memcpy(post, (const void*)%s, HL);" % (pdu, pdu))
        nul = "(%s == NULL)" % pdu
        if body_kind == "gget":
            f = argnames[1]
            A('    const char* fn_ = fname((long)%s); int bad = ((long)%s >= IDMAX || (long)%s < 0);' % (f, f, f))
            A('    o1722_event("%s", %s ? "nullget" : (bad ? "badget" : "get"), fn_, "generic", (long)%s, IDMAX, 0, pre, post, %s ? 0 : HL, (uint64_t)r, 0, 0, 0); }' % (view, nul, f, nul))
        elif body_kind == "gset":
            f, val = argnames[1], argnames[2]
            A('    const char* fn_ = fname((long)%s); int bad = ((long)%s >= IDMAX || (long)%s < 0);' % (f, f, f))
            A('    o1722_event("%s", %s ? "nullset" : (bad ? "badset" : "set"), fn_, "generic", (long)%s, IDMAX, (uint64_t)%s, pre, post, %s ? 0 : HL, 0, 0, 0, 0); }' % (view, nul, f, val, nul))
        elif body_kind == "init":
            A('    o1722_event("%s", %s ? "nullinit" : "init", "", "current", 0, IDMAX, 0, pre, post, %s ? 0 : HL, 0, 0, 0, 0); }' % (view, nul, nul))
        elif body_kind == "dget":
            A('    o1722_event("%s", %s ? "nullget" : "get", "%s", "dedicated", 0, IDMAX, 0, pre, post, %s ? 0 : HL, (uint64_t)r, 0, 0, 0); }' % (view, nul, fld, nul))
        elif body_kind == "dset":
            A('    o1722_event("%s", %s ? "nullset" : "set", "%s", "dedicated", 0, IDMAX, (uint64_t)%s, pre, post, %s ? 0 : HL, 0, 0, 0, 0); }' % (view, nul, fld, argnames[1], nul))
        elif body_kind == "lget":
            f, val = argnames[1], argnames[2]
            A('    const char* fn_ = fname((long)%s); int bad = ((long)%s >= IDMAX || (long)%s < 0);' % (f, f, f))
            A('    o1722_event("%s", %s ? "nullget" : (%s == NULL ? "nullout" : (bad ? "badget" : "get")), fn_, "legacy", (long)%s, IDMAX, 0, pre, post, %s ? 0 : HL, 0, (long)r, (%s != NULL && r == 0), %s ? (uint64_t)*%s : 0); }'
              % (view, nul, val, f, nul, val, val, val))
        elif body_kind == "lset":
            f, val = argnames[1], argnames[2]
            A('    const char* fn_ = fname((long)%s); int bad = ((long)%s >= IDMAX || (long)%s < 0);' % (f, f, f))
            A('    o1722_event("%s", %s ? "nullset" : (bad ? "badset" : "set"), fn_, "legacy", (long)%s, IDMAX, (uint64_t)%s, pre, post, %s ? 0 : HL, 0, (long)r, 0, 0); }' % (view, nul, f, val, nul))
        elif body_kind == "linit":
            sub = argnames[1] if len(argnames) > 1 else "0"
            A('    o1722_event("%s", %s ? "nullinit" : "init", "", "legacy", 0, IDMAX, (uint64_t)%s, pre, post, %s ? 0 : HL, 0, (long)r, 0, 0); }' % (view, nul, sub, nul))
        if ret != "void": A("  return r;")
        A("}")
    getters, setters = {}, {}
    for p in info["protos"]:
        m = re.match(r'Avtp_%s_([GgSs]et)(\w+)$' % view, p["name"])
        if m and m.group(2) != "Field":
            (getters if m.group(1).lower() == 'get' else setters)[norm(m.group(2))] = p
    for p in info["protos"]:
        n = p["name"]
        if n == "Avtp_%s_GetField" % view and len(p["args"]) == 2: wrap(p, "gget")
        elif n == "Avtp_%s_SetField" % view and len(p["args"]) == 3: wrap(p, "gset")
        elif n == "Avtp_%s_Init" % view and len(p["args"]) == 1: wrap(p, "init")
        elif re.match(r'avtp_(\w+_)?pdu_get$', n): wrap(p, "lget")
        elif re.match(r'avtp_(\w+_)?pdu_set$', n): wrap(p, "lset")
        elif re.match(r'avtp_(\w+_)?pdu_init$', n): wrap(p, "linit")
    for en in fields:
        fn = field_name(en); key = norm(fn)
        g, s_ = getters.get(key), setters.get(key)
        for (vv, acc), target in ACCESSOR_ALIAS.items():
            if vv == view and target == fn:
                g = g or getters.get(acc); s_ = s_ or setters.get(acc)
        if g and len(g["args"]) == 1 and g["ret"] != "void": wrap(g, "dget", fn)
        if s_ and len(s_["args"]) == 2: wrap(s_, "dset", fn)
    open(os.path.join(out, "ipose_%s.c" % view), "w").write("\n".join(L) + "\n")
    return view

def main():
    repo, out = sys.argv[1], sys.argv[2]
    os.makedirs(out, exist_ok=True)
    inc = os.path.join(repo, "include")
    open(os.path.join(out, "ipose_common.c"), "w").write(COMMON)
    views = []
    for h in sorted(glob.glob(os.path.join(inc, "avtp", "**", "*.h"), recursive=True)):
        info = parse_header(h, os.path.relpath(h, inc))
        for v in info["views"]:
            r = gen(info, v, out)
            if r: views.append(r)
    print(" ".join(views))

if __name__ == "__main__":
    main()
