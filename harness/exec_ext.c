#include <stdio.h>
#include "exec_ext.h"
int exec_ext(char** tok, int nt) { (void)tok; (void)nt; return 0; }
void describe_ext(void) { }
