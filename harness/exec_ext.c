/* exec_ext.c - further command families of the executor: CAN builders (C06), ...
 * Like exec.c it has no expected values: it runs what it is told and prints what it saw. */
#include <stdio.h>
#include <stdlib.h>
#include <string.h>
#include "exec_ext.h"
#include "avtp/acf/Can.h"
#include "avtp/acf/CanBrief.h"

static uint64_t be64x(const uint8_t* p) { uint64_t v = 0; for (int i = 0; i < 8; i++) v = (v << 8) | p[i]; return v; }

/* ------------------------------------------------------------------ CAN builders
 * CB <kind> <op> <id16> <fd> <len> <base> <place> <off> <arenahex> <payloadhex>
 *   kind: full | brief     op: create | copy | idfields | finalize | paylen            */
typedef struct { const char* kind; const char* op; uint32_t id; int fd; uint16_t len; uint8_t* hdr; uint8_t* payload; uint64_t ret; } CanCtx;
static void can_fn(void* p)
{
    CanCtx* c = p;
    int full = !strcmp(c->kind, "full");
    Avtp_Can_t* f = (Avtp_Can_t*)c->hdr; Avtp_CanBrief_t* b = (Avtp_CanBrief_t*)c->hdr;
    Avtp_CanVariant_t var = c->fd ? AVTP_CAN_FD : AVTP_CAN_CLASSIC;
    c->ret = 0;
    if (!strcmp(c->op, "create")) {
        if (full) Avtp_Can_CreateAcfMessage(f, c->id, c->payload, c->len, var);
        else c->ret = (uint64_t)(int64_t)Avtp_CanBrief_SetPayload(b, c->id, c->payload, c->len, var);
    } else if (!strcmp(c->op, "copy")) {
        if (full) Avtp_Can_SetPayload(f, c->payload, c->len);
        else memcpy(b->payload, c->payload, c->len);   /* the brief API has no copy-only step */
    } else if (!strcmp(c->op, "idfields")) {
        /* what a caller composing the message by hand does */
        if (full) { Avtp_Can_SetEff(f, c->id > 0x7ff); Avtp_Can_SetCanIdentifier(f, c->id); Avtp_Can_SetFdf(f, (uint8_t)c->fd); }
        else { Avtp_CanBrief_SetEff(b, c->id > 0x7ff); Avtp_CanBrief_SetCanIdentifier(b, c->id); Avtp_CanBrief_SetFdf(b, (uint8_t)c->fd); }
    } else if (!strcmp(c->op, "finalize")) {
        if (full) Avtp_Can_Finalize(f, c->len);
        else c->ret = (uint64_t)(int64_t)Avtp_CanBrief_Finalize(b, c->len);
    } else if (!strcmp(c->op, "paylen")) {
        c->ret = Avtp_Can_GetCanPayloadLength(f);
    }
}

static int cmd_can(char** tok, int nt)
{
    static uint8_t arena_b[EXT_MAXARENA], pay_b[EXT_MAXARENA], idb[8];
    if (nt < 11) return 0;
    CanCtx c; memset(&c, 0, sizeof c);
    c.kind = tok[1]; c.op = tok[2];
    unhex(tok[3], idb, 8); c.id = (uint32_t)be64x(idb);
    c.fd = atoi(tok[4]); c.len = (uint16_t)atoi(tok[5]);
    long base = atol(tok[6]); char place = tok[7][0]; long off = atol(tok[8]);
    size_t alen = unhex(tok[9], arena_b, sizeof arena_b);
    size_t plen = unhex(tok[10], pay_b, sizeof pay_b);
    uint8_t* arena = ext_place(place, off, arena_b, alen);
    c.hdr = arena + base;
    c.payload = ext_source(pay_b, plen);
    char status[64];
    ext_call(can_fn, &c, status, sizeof status, arena);
    ext_result(status, c.ret, 0, 0, arena, alen);
    return 1;
}

int exec_ext(char** tok, int nt)
{
    if (!strcmp(tok[0], "CB")) return cmd_can(tok, nt);
    return 0;
}
void describe_ext(void) { }
