/* exec_ext.c - further command families of the executor: CAN builders (C06), ...
 * Like exec.c it has no expected values: it runs what it is told and prints what it saw. */
#include <stdio.h>
#include <stdlib.h>
#include <string.h>
#include "exec_ext.h"
#include "avtp/acf/Can.h"
#include "avtp/acf/CanBrief.h"

static uint64_t be64x(const uint8_t* p) { uint64_t v = 0; for (int i = 0; i < 8; i++) v = (v << 8) | p[i]; return v; }

/* ------------------------------------------------------------------ CAN builders
 * CB <kind> <op> <id16> <fd> <len> <base> <place> <off> <arenahex> <payloadhex> [<srcoff>: payload source = arena + srcoff]
 *   kind: full | brief     op: create | copy | idfields | finalize | paylen            */
typedef struct { const char* kind; const char* op; uint32_t id; int fd; uint16_t len; uint8_t* hdr; uint8_t* payload; uint64_t ret; } CanCtx;
static void can_fn(void* p)
{
    CanCtx* c = p;
    int full = !strcmp(c->kind, "full");
    Avtp_Can_t* f = (Avtp_Can_t*)c->hdr; Avtp_CanBrief_t* b = (Avtp_CanBrief_t*)c->hdr;
    Avtp_CanVariant_t var = c->fd ? AVTP_CAN_FD : AVTP_CAN_CLASSIC;
    c->ret = 0;
    if (!strcmp(c->op, "create")) {
        if (full) Avtp_Can_CreateAcfMessage(f, c->id, c->payload, c->len, var);
        else c->ret = (uint64_t)(int64_t)Avtp_CanBrief_SetPayload(b, c->id, c->payload, c->len, var);
    } else if (!strcmp(c->op, "copy")) {
        if (full) Avtp_Can_SetPayload(f, c->payload, c->len);
        else memcpy(b->payload, c->payload, c->len);   /* the brief API has no copy-only step */
    } else if (!strcmp(c->op, "idfields")) {
        /* what a caller composing the message by hand does */
        if (full) { Avtp_Can_SetEff(f, c->id > 0x7ff); Avtp_Can_SetCanIdentifier(f, c->id); Avtp_Can_SetFdf(f, (uint8_t)c->fd); }
        else { Avtp_CanBrief_SetEff(b, c->id > 0x7ff); Avtp_CanBrief_SetCanIdentifier(b, c->id); Avtp_CanBrief_SetFdf(b, (uint8_t)c->fd); }
    } else if (!strcmp(c->op, "finalize")) {
        if (full) Avtp_Can_Finalize(f, c->len);
        else c->ret = (uint64_t)(int64_t)Avtp_CanBrief_Finalize(b, c->len);
    } else if (!strcmp(c->op, "paylen")) {
        c->ret = Avtp_Can_GetCanPayloadLength(f);
    }
}

static int cmd_can(char** tok, int nt)
{
    static uint8_t arena_b[EXT_MAXARENA], pay_b[EXT_MAXARENA], idb[8];
    if (nt < 11) return 0;
    CanCtx c; memset(&c, 0, sizeof c);
    c.kind = tok[1]; c.op = tok[2];
    unhex(tok[3], idb, 8); c.id = (uint32_t)be64x(idb);
    c.fd = atoi(tok[4]); c.len = (uint16_t)atoi(tok[5]);
    long base = atol(tok[6]); char place = tok[7][0]; long off = atol(tok[8]);
    size_t alen = unhex(tok[9], arena_b, sizeof arena_b);
    size_t plen = unhex(tok[10], pay_b, sizeof pay_b);
    uint8_t* arena = ext_place(place, off, arena_b, alen);
    c.hdr = arena + base;
    ext_dest_hint(c.hdr + (!strcmp(c.kind, "full") ? 16 : 8));
    if (nt >= 12 && atol(tok[11]) >= 0 && (size_t)atol(tok[11]) + plen <= alen) c.payload = arena + atol(tok[11]);   /* payload source inside the PDU buffer */
    else c.payload = ext_source(pay_b, plen);
    ext_dest_hint(NULL);
    char status[64];
    ext_call(can_fn, &c, status, sizeof status, arena);
    ext_result(status, c.ret, 0, 0, arena, alen); putchar('\n');
    return 1;
}


/* ------------------------------------------------------------------ VSS codec (C07-C10)
 * VS <op> <dt> <mode> <n> <cap> <base> <place> <off> <arenahex> <arghex> [<srcoff>: putdata source at arena + srcoff]
 *   op: putpath putdata calcpath getpath getdata pad
 *   values are logical big-endian bytes; the harness turns them into host-typed C objects and back.
 * answer: R status ret rc out arena canary len=<n> data=<hex> dirty=<0|1>                       */
#include "avtp/acf/custom/Vss.h"
typedef struct { uint16_t data_length; void* data; } GenArr;     /* layout of every VssData*Array_t / VssDataString_t */
static int elem_size(int dt) { int k = dt >= 128 ? dt - 128 : dt;
    switch (k) { case 2: case 3: return 2; case 4: case 5: case 9: return 4; case 6: case 7: case 10: return 8; default: return 1; } }
static int is_var(int dt) { return dt == 11 || (dt >= 128 && dt <= 139); }
static void to_host(const uint8_t* be, uint8_t* host, size_t nbytes, int es)
{   /* logical big-endian element bytes -> host objects */
    for (size_t i = 0; i + es <= nbytes; i += es) {
        uint64_t v = 0; for (int k = 0; k < es; k++) v = (v << 8) | be[i + k];
        switch (es) { case 1: host[i] = (uint8_t)v; break;
            case 2: { uint16_t x = (uint16_t)v; memcpy(host + i, &x, 2); } break;
            case 4: { uint32_t x = (uint32_t)v; memcpy(host + i, &x, 4); } break;
            default: memcpy(host + i, &v, 8); }
    }
}
static void from_host(const uint8_t* host, uint8_t* be, size_t nbytes, int es)
{
    for (size_t i = 0; i + es <= nbytes; i += es) {
        uint64_t v = 0;
        switch (es) { case 1: v = host[i]; break;
            case 2: { uint16_t x; memcpy(&x, host + i, 2); v = x; } break;
            case 4: { uint32_t x; memcpy(&x, host + i, 4); v = x; } break;
            default: memcpy(&v, host + i, 8); }
        for (int k = es - 1; k >= 0; k--) { be[i + k] = (uint8_t)v; v >>= 8; }
    }
}
typedef struct { const char* op; int dt, mode; long n; Avtp_Vss_t* pdu; VssPath_t path; VssData_t data; GenArr arr; uint64_t ret; } VssCtx;
static void vss_fn(void* p)
{
    VssCtx* c = p;
    if (!strcmp(c->op, "putpath")) Avtp_Vss_SetVssPath(c->pdu, &c->path);
    else if (!strcmp(c->op, "putdata")) Avtp_Vss_SetVssData(c->pdu, &c->data);
    else if (!strcmp(c->op, "calcpath")) c->ret = Avtp_Vss_CalcVssPathLength(c->pdu);
    else if (!strcmp(c->op, "getpath")) Avtp_Vss_GetVssPath(c->pdu, &c->path);
    else if (!strcmp(c->op, "getdata")) Avtp_Vss_GetVssData(c->pdu, &c->data);
    else if (!strcmp(c->op, "pad")) Avtp_Vss_Pad(c->pdu, (uint16_t)c->n);
}
/* what a result descriptor holds on entry is not an input of the decoder (the specification has no such parameter): the harness leaves
 * a different stale length there on each call - as a descriptor reused for a sequence of messages would */
static uint16_t stale_len(void) { static const uint16_t v[8] = { 0xBEEF, 1, 0, 3, 0xFFFF, 2, 7, 0x0100 }; static unsigned k; return v[k++ & 7]; }
static int cmd_vss(char** tok, int nt)
{
    static uint8_t arena_b[EXT_MAXARENA], arg_b[EXT_MAXARENA], host_b[EXT_MAXARENA], res_b[EXT_MAXARENA];
    if (nt < 11) return 0;
    VssCtx c; memset(&c, 0, sizeof c);
    c.op = tok[1]; c.dt = atoi(tok[2]); c.mode = atoi(tok[3]); c.n = atol(tok[4]);
    long cap = atol(tok[5]), base = atol(tok[6]); char place = tok[7][0]; long off = atol(tok[8]);
    size_t alen = unhex(tok[9], arena_b, sizeof arena_b);
    size_t arglen = unhex(tok[10], arg_b, sizeof arg_b);
    uint8_t* arena = ext_place(place, off, arena_b, alen);
    c.pdu = (Avtp_Vss_t*)(arena + base);
    int es = elem_size(c.dt);
    uint8_t* dest = NULL; size_t reslen = 0; int have_res = 0, dirty = 0;
    memset(&c.data, 0xCD, sizeof c.data); memset(&c.path, 0xCD, sizeof c.path);
    c.arr.data_length = stale_len(); c.arr.data = NULL;
    if (!strcmp(c.op, "putpath")) {
        if (c.mode == 1) { uint32_t id = 0; for (size_t i = 0; i < 4 && i < arglen; i++) id = (id << 8) | arg_b[i]; c.path.vss_static_id_path = id; }
        else { c.path.vss_interop_path.path_length = (uint16_t)arglen; c.path.vss_interop_path.path = (char*)ext_source(arg_b, arglen); }
    } else if (!strcmp(c.op, "putdata")) {
        to_host(arg_b, host_b, arglen, es);
        if (is_var(c.dt) || c.dt > 11) {
            c.arr.data_length = (uint16_t)arglen;
            if (nt >= 12 && atol(tok[11]) >= 0 && (size_t)atol(tok[11]) + arglen <= alen) {      /* source in place: inside the arena */
                memcpy(arena + atol(tok[11]), host_b, arglen); c.arr.data = arena + atol(tok[11]);
            } else c.arr.data = ext_source_typed(host_b, arglen, (size_t)es);
            c.data.data_string = (VssDataString_t*)&c.arr; }
        else memcpy(&c.data, host_b, es);          /* scalar members all start at offset 0 of the union */
    } else if (!strcmp(c.op, "getpath")) {
        if (c.mode != 1) { dest = ext_dest(0, cap, 0xCD); c.path.vss_interop_path.path = (char*)dest; c.path.vss_interop_path.path_length = stale_len(); }
    } else if (!strcmp(c.op, "getdata")) {
        if (is_var(c.dt)) { dest = c.n ? ext_dest(0, cap, 0xCD) : NULL; c.arr.data = dest; c.data.data_string = (VssDataString_t*)&c.arr; }
    }
    char status[64];
    ext_call(vss_fn, &c, status, sizeof status, arena);
    if (status[0] == 'o') {
        if (!strcmp(c.op, "getpath")) {
            have_res = 1;
            if (c.mode == 1) { uint32_t id = c.path.vss_static_id_path; res_b[0] = id >> 24; res_b[1] = id >> 16; res_b[2] = id >> 8; res_b[3] = id; reslen = 4; }
            else { reslen = c.path.vss_interop_path.path_length; if (reslen > (size_t)cap) reslen = cap; memcpy(res_b, dest, reslen);
                   reslen = c.path.vss_interop_path.path_length; dirty = ext_dest_dirty(0, cap, 0xCD); }
        } else if (!strcmp(c.op, "getdata")) {
            have_res = 1;
            if (is_var(c.dt)) { reslen = c.arr.data_length;
                if (dest) { size_t m = reslen > (size_t)cap ? (size_t)cap : reslen; from_host(dest, res_b, m, es); dirty = ext_dest_dirty(0, cap, 0xCD); } }
            else { reslen = es; from_host((uint8_t*)&c.data, res_b, es, es); }
        }
    }
    ext_result(status, c.ret, 0, 0, arena, alen);
    printf(" len=%zu data=", have_res ? reslen : 0);
    if (have_res && (dest || !is_var(c.dt) || !strcmp(c.op, "getpath"))) puthex(res_b, reslen > (size_t)cap && (dest) ? (size_t)cap : reslen); else putchar('-');
    printf(" dirty=%d\n", dirty);
    return 1;
}

/* SA pack <destcap> <hex,hex,...>     SA count <blobhex>     SA unpack <req> <destpattern 0101..> <blobhex> <cap,cap,...>   */
typedef struct { const char* op; VssDataStringArray_t arr; VssDataString_t* ptrs[512]; VssDataString_t strs[512]; int n; uint64_t ret; } SaCtx;
static void sa_fn(void* p)
{
    SaCtx* c = p;
    if (!strcmp(c->op, "pack")) Avtp_Vss_SerializeStringArray(&c->arr, c->ptrs, (uint16_t)c->n);
    else if (!strcmp(c->op, "count")) c->ret = Avtp_Vss_GetVSSDataStringArrayLength(&c->arr);
    else if (!strcmp(c->op, "unpack")) Avtp_Vss_DeserializeStringArray(&c->arr, c->ptrs, (uint16_t)c->n);
}
static int cmd_sa(char** tok, int nt)
{
    static SaCtx c; static uint8_t blob[EXT_MAXARENA], strs[EXT_MAXARENA];
    static uint8_t dummy[8];
    memset(&c, 0, sizeof c);
    if (nt < 3) return 0;
    c.op = tok[1];
    char status[64];
    if (!strcmp(c.op, "pack") && nt >= 4) {
        long cap = atol(tok[2]);
        size_t used = 0; char* s = tok[3];
        while (*s && c.n < 512) {                      /* comma separated hex strings; "-" = empty */
            char* e = strchr(s, ','); if (e) *e = 0;
            size_t l = unhex(s, strs + used, sizeof strs - used);
            c.strs[c.n].data_length = (uint16_t)l; c.strs[c.n].data = (char*)(strs + used); c.ptrs[c.n] = &c.strs[c.n];
            used += l; c.n++;
            if (!e) break; s = e + 1;
        }
        if (!strcmp(tok[3], "none")) c.n = 0;
        uint8_t* dest = ext_dest(0, cap, 0xCD);
        c.arr.data = dest; c.arr.data_length = stale_len();
        ext_call(sa_fn, &c, status, sizeof status, dest);
        printf("R %s len=%u data=", status, (unsigned)c.arr.data_length); puthex(dest, cap); printf(" dirty=%d\n", ext_dest_dirty(0, cap, 0xCD));
        return 1;
    }
    if (!strcmp(c.op, "count")) {
        size_t l = unhex(tok[2], blob, sizeof blob);
        c.arr.data = ext_source(blob, l); c.arr.data_length = (uint16_t)l;
        ext_call(sa_fn, &c, status, sizeof status, c.arr.data);
        printf("R %s ret=%llu\n", status, (unsigned long long)c.ret);
        return 1;
    }
    if (!strcmp(c.op, "unpack") && nt >= 6) {
        c.n = atoi(tok[2]); const char* wds = tok[3]; size_t wdl = strlen(wds);   /* per string: 1 = destination supplied, 0 = NULL; last char repeats */
#define WD(i) (wdl && wds[0] != '-' && wds[(size_t)(i) < wdl ? (size_t)(i) : wdl - 1] == '1')
        size_t l = unhex(tok[4], blob, sizeof blob);
        c.arr.data = ext_source(blob, l); c.arr.data_length = (uint16_t)l;
        long caps[512]; int nc = 0; char* s = tok[5];
        while (*s && nc < 512) { caps[nc++] = atol(s); char* e = strchr(s, ','); if (!e) break; s = e + 1; }
        uint8_t* dests[512];
        static VssDataString_t shared_skip;              /* pattern char '2': one descriptor named by several entries of the pointer array */
        shared_skip.data_length = 0xBEEF; shared_skip.data = NULL;
#define WD2(i) (wdl && wds[(size_t)(i) < wdl ? (size_t)(i) : wdl - 1] == '2')
        for (int i = 0; i < c.n && i < 512; i++) {
            long cap = i < nc ? caps[i] : 0;
            dests[i] = NULL;
            if (WD(i)) dests[i] = (i < 8) ? ext_dest(1 + i, cap, 0xCD) : dummy;
            c.strs[i].data_length = 0xBEEF; c.strs[i].data = (char*)dests[i]; c.ptrs[i] = WD2(i) ? &shared_skip : &c.strs[i];
        }
        ext_call(sa_fn, &c, status, sizeof status, c.arr.data);
        printf("R %s res=", status);
        for (int i = 0; i < c.n && i < 512; i++) {
            long cap = i < nc ? caps[i] : 0;
            unsigned dl = c.ptrs[i]->data_length;
            printf("%s%u:", i ? "," : "", dl);
            if (WD(i) && i < 8 && dl != 0xBEEF) puthex(dests[i], dl > (unsigned)cap ? (size_t)cap : dl); else putchar('-');
            if (WD(i) && i < 8 && ext_dest_dirty(1 + i, cap, 0xCD)) printf("!dirty");
        }
        if (c.n == 0) putchar('-');
        putchar('\n');
        return 1;
    }
    return 0;
}

/* ------------------------------------------------------------------ byte-order helpers (C13)
 * BO <fn> <size> <xhex>   fn: CpuToBe BeToCpu CpuToLe LeToCpu Bswap
 * answer: R ok val=<logical value of the result> img=<memory image of the result object>      */
#include "avtp/Byteorder.h"
static int cmd_bo(char** tok, int nt)
{
    if (nt < 4) return 0;
    const char* fn = tok[1]; int size = atoi(tok[2]);
    uint8_t xb[8] = {0}, vb[8], img[8];
    unhex(tok[3], xb, 8);
    uint64_t x = 0; for (int i = 0; i < size; i++) x = (x << 8) | xb[i];
    uint64_t r = 0; int ok = 1;
#define DISPATCH(bits, T) \
    if (!strcmp(fn, "CpuToBe")) { T y = Avtp_CpuToBe##bits((T)x); memcpy(img, &y, sizeof y); r = y; } \
    else if (!strcmp(fn, "BeToCpu")) { T y = Avtp_BeToCpu##bits((T)x); memcpy(img, &y, sizeof y); r = y; } \
    else if (!strcmp(fn, "CpuToLe")) { T y = Avtp_CpuToLe##bits((T)x); memcpy(img, &y, sizeof y); r = y; } \
    else if (!strcmp(fn, "LeToCpu")) { T y = Avtp_LeToCpu##bits((T)x); memcpy(img, &y, sizeof y); r = y; } \
    else if (!strcmp(fn, "Bswap")) { T y = Avtp_Bswap##bits((T)x); memcpy(img, &y, sizeof y); r = y; } \
    else ok = 0;
    if (size == 2) { DISPATCH(16, uint16_t) } else if (size == 4) { DISPATCH(32, uint32_t) } else if (size == 8) { DISPATCH(64, uint64_t) } else ok = 0;
    if (!ok) { printf("R nobind\n"); return 1; }
    for (int i = size - 1; i >= 0; i--) { vb[i] = (uint8_t)r; r >>= 8; }
    printf("R ok val="); puthex(vb, size); printf(" img="); puthex(img, size); putchar('\n');
    return 1;
}

/* ------------------------------------------------------------------ raw by-descriptor API (C01/C02 shapes, C14)
 * Y <op> <q> <off> <w> <val16> <base> <place> <poff> <arenahex>       op: get | set                      */
#include "avtp/Utils.h"
typedef struct { int set; Avtp_FieldDescriptor_t tab[3]; uint8_t* hdr; uint64_t val, ret, val2, r0, r1; } RawCtx;
static void raw_fn(void* p)
{
    RawCtx* c = p;
    if (c->set == 2) {      /* gsg: get, set, get, set, get in one function, identical arguments */
        const Avtp_FieldDescriptor_t* tab = c->tab; uint8_t* hdr = c->hdr; uint64_t v1 = c->val, v2 = c->val2;
        uint64_t r0 = Avtp_GetField(tab, 3, hdr, 1);
        Avtp_SetField(tab, 3, hdr, 1, v1);
        uint64_t r1 = Avtp_GetField(tab, 3, hdr, 1);
        Avtp_SetField(tab, 3, hdr, 1, v2);
        uint64_t r2 = Avtp_GetField(tab, 3, hdr, 1);
        c->r0 = r0; c->r1 = r1; c->ret = r2;
        return;
    }
    if (c->set) Avtp_SetField(c->tab, 3, c->hdr, 1, c->val); else c->ret = Avtp_GetField(c->tab, 3, c->hdr, 1);
}
static int cmd_raw(char** tok, int nt)
{
    static uint8_t arena_b[EXT_MAXARENA]; uint8_t vb[8];
    if (nt < 10) return 0;
    RawCtx c; memset(&c, 0, sizeof c);
    c.set = !strcmp(tok[1], "set") ? 1 : !strcmp(tok[1], "gsg") ? 2 : 0;
    c.tab[0].quadlet = 0; c.tab[0].offset = 0; c.tab[0].bits = 8;
    c.tab[1].quadlet = (uint8_t)atoi(tok[2]); c.tab[1].offset = (uint8_t)atoi(tok[3]); c.tab[1].bits = (uint8_t)atoi(tok[4]);
    c.tab[2].quadlet = 1; c.tab[2].offset = 4; c.tab[2].bits = 12;
    uint8_t vb2[16] = {0}; unhex(tok[5], vb2, 16); memcpy(vb, vb2, 8); c.val = be64x(vb); c.val2 = be64x(vb2 + 8);
    long base = atol(tok[6]); char place = tok[7][0]; long off = atol(tok[8]);
    size_t alen = unhex(tok[9], arena_b, sizeof arena_b);
    uint8_t* arena = ext_place(place, off, arena_b, alen);
    c.hdr = arena + base;
    char status[64];
    ext_call(raw_fn, &c, status, sizeof status, arena);
    ext_result(status, c.ret, 0, c.set == 2 ? c.r1 : 0, arena, alen);
    if (c.set == 2) { uint8_t b[8]; uint64_t x = c.r0; for (int i = 7; i >= 0; i--) { b[i] = (uint8_t)x; x >>= 8; } printf(" r0="); puthex(b, 8); }
    putchar('\n');
    return 1;
}


/* ------------------------------------------------------------------ control-format container with several mixed ACF-CAN messages
 * (growth: AcfContainer.tla)
 * CT <ctrl: Tscf|Ntscf> <place> <off> <arenahex> <msgs: k:idhex:fd:payhex;... or ->      k: f (full CAN) | b (brief CAN) | g (GPC, 48-bit id); a bare c = close here and go on
 *   assembles the container with the library the way the tutorial / talkers do (offset advanced by the length READ BACK),
 *   writes the control header's data length, then walks the result by the generic ACF prefix.
 * answer: R status used 0 0 arena canary walk=<k:id:fd:eff:payhex;...>                                                   */
#include "avtp/acf/Tscf.h"
#include "avtp/acf/Ntscf.h"
#include "avtp/acf/AcfCommon.h"
#include "avtp/acf/Gpc.h"
typedef struct { int tscf; uint8_t* arena; size_t alen; char* msgs; uint64_t used; char* walk; size_t wcap; size_t w; } CtCtx;
static int ct_hex(int ch) { return ch >= '0' && ch <= '9' ? ch - '0' : ch >= 'a' && ch <= 'f' ? ch - 'a' + 10 : -1; }
static void ct_put(CtCtx* c, const char* t) { while (*t && c->w + 1 < c->wcap) c->walk[c->w++] = *t++; c->walk[c->w] = 0; }
static void ct_puthex(CtCtx* c, uint32_t v, int digits) { char b[9]; for (int i = 0; i < digits; i++) b[i] = "0123456789abcdef"[(v >> (4 * (digits - 1 - i))) & 15]; b[digits] = 0; ct_put(c, b); }
static void ct_fn(void* p)
{
    CtCtx* c = p;
    static uint8_t pay[2048];
    size_t hdr = c->tscf ? AVTP_TSCF_HEADER_LEN : AVTP_NTSCF_HEADER_LEN, pos = hdr;
    if (c->tscf) Avtp_Tscf_Init((Avtp_Tscf_t*)c->arena); else Avtp_Ntscf_Init((Avtp_Ntscf_t*)c->arena);
    char* s = c->msgs;
    while (s && *s && *s != '-') {
        char k = s[0]; char* q = s + 2;
        if (k == 'c') {          /* intermediate close: the data length is written, more messages follow */
            if (c->tscf) Avtp_Tscf_SetStreamDataLength((Avtp_Tscf_t*)c->arena, (uint16_t)(pos - hdr));
            else Avtp_Ntscf_SetNtscfDataLength((Avtp_Ntscf_t*)c->arena, (uint16_t)(pos - hdr));
            s = (s[1] == ';') ? s + 2 : NULL;
            continue;
        }
        uint64_t id = 0; while (ct_hex(*q) >= 0) id = (id << 4) | (uint64_t)ct_hex(*q++);
        q++;
        int fd = *q++ == '1'; q++;
        size_t n = 0;
        while (ct_hex(q[0]) >= 0 && ct_hex(q[1]) >= 0 && n < sizeof pay) { pay[n++] = (uint8_t)(ct_hex(q[0]) * 16 + ct_hex(q[1])); q += 2; }
        if (*q == '-') q++;
        Avtp_CanVariant_t var = fd ? AVTP_CAN_FD : AVTP_CAN_CLASSIC;
        if (k == 'g') {          /* as the hello-world talker does: header through the library, payload and zero padding by the application */
            Avtp_Gpc_t* m = (Avtp_Gpc_t*)(c->arena + pos);
            size_t pad = (4 - n % 4) % 4;
            Avtp_Gpc_Init(m);
            Avtp_Gpc_SetGpcMsgId(m, id);
            Avtp_Gpc_SetAcfMsgLength(m, (uint16_t)((AVTP_GPC_HEADER_LEN + n + pad) / 4));
            memcpy(c->arena + pos + AVTP_GPC_HEADER_LEN, pay, n);
            memset(c->arena + pos + AVTP_GPC_HEADER_LEN + n, 0, pad);
            pos += (size_t)Avtp_Gpc_GetAcfMsgLength(m) * 4;
        } else if (k == 'f') {
            Avtp_Can_t* m = (Avtp_Can_t*)(c->arena + pos);
            Avtp_Can_Init(m);
            Avtp_Can_CreateAcfMessage(m, (uint32_t)id, pay, (uint16_t)n, var);
            pos += (size_t)Avtp_Can_GetAcfMsgLength(m) * 4;
        } else {
            Avtp_CanBrief_t* m = (Avtp_CanBrief_t*)(c->arena + pos);
            Avtp_CanBrief_Init(m);
            Avtp_CanBrief_SetPayload(m, (uint32_t)id, pay, (uint16_t)n, var);
            pos += (size_t)Avtp_CanBrief_GetAcfMsgLength(m) * 4;
        }
        s = (*q == ';') ? q + 1 : NULL;
    }
    if (c->tscf) Avtp_Tscf_SetStreamDataLength((Avtp_Tscf_t*)c->arena, (uint16_t)(pos - hdr));
    else Avtp_Ntscf_SetNtscfDataLength((Avtp_Ntscf_t*)c->arena, (uint16_t)(pos - hdr));
    c->used = pos;
    /* the receiving side */
    size_t total = c->tscf ? Avtp_Tscf_GetStreamDataLength((Avtp_Tscf_t*)c->arena) : Avtp_Ntscf_GetNtscfDataLength((Avtp_Ntscf_t*)c->arena);
    size_t h = hdr, limit = hdr + total;
    if (limit > c->alen) limit = c->alen;
    c->w = 0; c->walk[0] = 0;
    while (h + 4 <= limit && c->w + 32 < c->wcap) {
        Avtp_AcfCommon_t* a = (Avtp_AcfCommon_t*)(c->arena + h);
        unsigned t = (unsigned)Avtp_AcfCommon_GetAcfMsgType(a);
        size_t ql = Avtp_AcfCommon_GetAcfMsgLength(a);
        if (ql == 0 || (t != AVTP_ACF_TYPE_CAN && t != AVTP_ACF_TYPE_CAN_BRIEF && t != AVTP_ACF_TYPE_GPC) || h + ql * 4 > limit) { ct_put(c, "bad;"); break; }
        if (t == AVTP_ACF_TYPE_GPC) {
            uint64_t gid = Avtp_Gpc_GetGpcMsgId((Avtp_Gpc_t*)a);
            ct_put(c, "g:"); ct_puthex(c, (uint32_t)(gid >> 32), 4); ct_puthex(c, (uint32_t)gid, 8); ct_put(c, ":0:0:");
            for (size_t i = AVTP_GPC_HEADER_LEN; i < ql * 4; i++) ct_puthex(c, c->arena[h + i], 2);
            if (ql * 4 == AVTP_GPC_HEADER_LEN) ct_put(c, "-");
            ct_put(c, ";");
            h += ql * 4;
            continue;
        }
        uint32_t id; unsigned fd, eff; long plen; const uint8_t* pl;
        if (t == AVTP_ACF_TYPE_CAN) {
            Avtp_Can_t* m = (Avtp_Can_t*)a;
            id = Avtp_Can_GetCanIdentifier(m); fd = Avtp_Can_GetFdf(m); eff = Avtp_Can_GetEff(m);
            plen = (long)ql * 4 - AVTP_CAN_HEADER_LEN - Avtp_Can_GetPad(m); pl = c->arena + h + AVTP_CAN_HEADER_LEN;
        } else {
            Avtp_CanBrief_t* m = (Avtp_CanBrief_t*)a;
            id = Avtp_CanBrief_GetCanIdentifier(m); fd = Avtp_CanBrief_GetFdf(m); eff = Avtp_CanBrief_GetEff(m);
            plen = (long)ql * 4 - AVTP_CAN_BRIEF_HEADER_LEN - Avtp_CanBrief_GetPad(m); pl = c->arena + h + AVTP_CAN_BRIEF_HEADER_LEN;
        }
        if (plen < 0) { ct_put(c, "bad;"); break; }
        ct_put(c, t == AVTP_ACF_TYPE_CAN ? "f:" : "b:"); ct_puthex(c, id, 8);
        ct_put(c, fd ? ":1" : ":0"); ct_put(c, eff ? ":1:" : ":0:");
        for (long i = 0; i < plen; i++) ct_puthex(c, pl[i], 2);
        if (plen == 0) ct_put(c, "-");
        ct_put(c, ";");
        h += ql * 4;
    }
}
static int cmd_ct(char** tok, int nt)
{
    static uint8_t arena_b[EXT_MAXARENA]; static char walk[8192];
    if (nt < 6) return 0;
    CtCtx c; memset(&c, 0, sizeof c);
    c.tscf = !strcmp(tok[1], "Tscf");
    char place = tok[2][0]; long off = atol(tok[3]);
    c.alen = unhex(tok[4], arena_b, sizeof arena_b);
    c.arena = ext_place(place, off, arena_b, c.alen);
    c.msgs = tok[5]; c.walk = walk; c.wcap = sizeof walk; walk[0] = 0;
    char status[64];
    ext_call(ct_fn, &c, status, sizeof status, c.arena);
    ext_result(status, c.used, 0, 0, c.arena, c.alen);
    printf(" walk=%s\n", walk[0] ? walk : "-");
    return 1;
}

int exec_ext(char** tok, int nt)
{
    if (!strcmp(tok[0], "Y")) return cmd_raw(tok, nt);
    if (!strcmp(tok[0], "BO")) return cmd_bo(tok, nt);
    if (!strcmp(tok[0], "VS")) return cmd_vss(tok, nt);
    if (!strcmp(tok[0], "SA")) return cmd_sa(tok, nt);
    if (!strcmp(tok[0], "CB")) return cmd_can(tok, nt);
    if (!strcmp(tok[0], "CT")) return cmd_ct(tok, nt);
    return 0;
}
void describe_ext(void) { }
