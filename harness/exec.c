/*
 * exec.c - executor: runs library operations on placed buffers and reports what happened.
 *
 * It contains NO expected values: it executes what it is told and prints the observed
 * memory, return value, return code and faults.  Expected values come from TLC (replay
 * direction) or are checked by TLC afterwards (trace direction).
 *
 * Protocol (stdin -> stdout, one line each, tokens separated by blanks):
 *   describe
 *   X <view> <op> <path> <fidx> <id> <val16> <base> <place> <off> <arenahex>     one-shot
 *   N <slot> <off> <arenahex>          new persistent buffer          -> "R ok"
 *   D <slot> <view> <op> <path> <fidx> <id> <val16> <base>            op on a slot
 *   G <slot>                            dump slot                      -> "R ok ... <arenahex>"
 * answer to X / D:
 *   R <status> <ret16> <rc> <out16> <arenahex> <canary>
 *     status: ok | fault:<signo>:<offset relative to arena start> | nobind
 *     canary: 0 = bytes around the arena untouched, 1 = modified
 * ops: get set init nullget nullset nullinit badget badset nullout payload
 * path: generic dedicated legacy current
 * place: G (arena starts <off> bytes below a multiple of 2^32), H (exact-size malloc'ed object, <off> spare bytes in front), E (arena end flush against an inaccessible page), S (arena start at page start + off,
 *        inaccessible page before), R (as E, but the arena's pages are read-only during the call)
 */
#define _GNU_SOURCE
#include <stdio.h>
#include <stdlib.h>
#include <string.h>
#include <stdint.h>
#include <signal.h>
#include <setjmp.h>
#include <unistd.h>
#include <sys/mman.h>
#include <errno.h>
#include "verif_bind.h"
#include "exec_ext.h"

#define PAGE 4096
#define DATA_PAGES 18
#define MAXARENA (DATA_PAGES * PAGE - 64)
#define NSLOT 8
#define NDEST 9

static sigjmp_buf jb;
static volatile sig_atomic_t in_call = 0;
static volatile int fault_sig = 0;
static void* volatile fault_addr = 0;

static volatile int watch_hits = 0;       /* calls that did not return; after WATCH_BUDGET of them the remaining commands are answered "skipped" */
#define WATCH_BUDGET 12
static void on_fault(int sig, siginfo_t* si, void* ctx)
{
    (void)ctx;
    if (!in_call) { _exit(70); }
    if (sig == SIGALRM) watch_hits++;
    fault_sig = sig;
    fault_addr = si ? si->si_addr : 0;
    siglongjmp(jb, 1);
}

/* ambient state: the specification gives a library call nothing but its arguments.  Before every call errno holds a different
 * stale value (as after some earlier, unrelated failure); afterwards it must still hold it.  The C library's doors to ambient
 * state are interposed while a call runs: the environment, the clock, the random generator, the terminal, the locale.  A call
 * that uses one of them is reported through the "canary" column of the answer (2: errno modified, 3: ambient state consulted). */
#include <errno.h>
static const int errno_poison[6] = { EINVAL, EFAULT, EINTR, 0, ENOMEM, ERANGE };
static unsigned errno_k; static int errno_before; static volatile int ambient_calls;
static void ambient_arm(void) { errno_before = errno_poison[errno_k++ % 6]; errno = errno_before; ambient_calls = 0; }
static int ambient_verdict(void) { int e = errno; errno = 0; return ambient_calls ? 3 : (e != errno_before ? 2 : 0); }
static volatile sig_atomic_t in_call_flag_for_ambient;
char* getenv(const char* n) { extern char** environ; if (in_call_flag_for_ambient) { ambient_calls++; return (char*)"1"; }
    size_t l = strlen(n); for (char** e = environ; e && *e; e++) if (!strncmp(*e, n, l) && (*e)[l] == '=') return *e + l + 1; return NULL; }
char* secure_getenv(const char* n) { return getenv(n); }
int rand(void) { if (in_call_flag_for_ambient) ambient_calls++; return 4; }
long random(void) { if (in_call_flag_for_ambient) ambient_calls++; return 4; }
int isatty(int fd) { (void)fd; if (in_call_flag_for_ambient) { ambient_calls++; return 1; } return 0; }
time_t time(time_t* t) { if (in_call_flag_for_ambient) ambient_calls++; if (t) *t = 1700000000; return 1700000000; }

/* watchdog: a call that does not return within WATCH_S seconds is an observation ("fault:14:..."), not a hang of the harness */
#include <sys/time.h>
#define WATCH_S 5
static void watch(int on) { struct itimerval it; memset(&it, 0, sizeof it); it.it_value.tv_sec = on ? WATCH_S : 0; setitimer(ITIMER_REAL, &it, NULL); }

typedef struct { uint8_t* map; uint8_t* data; } Region;   /* guard | DATA_PAGES | guard */

static Region mkregion(void)
{
    Region r;
    size_t len = (DATA_PAGES + 2) * PAGE;
    r.map = mmap(NULL, len, PROT_NONE, MAP_PRIVATE | MAP_ANONYMOUS, -1, 0);
    if (r.map == MAP_FAILED) { perror("mmap"); exit(71); }
    r.data = r.map + PAGE;
    if (mprotect(r.data, DATA_PAGES * PAGE, PROT_READ | PROT_WRITE)) { perror("mprotect"); exit(71); }
    return r;
}

static Region regE, regS, regP, regD[NDEST], slotreg[NSLOT];
static uint8_t* slotptr[NSLOT];
static size_t slotlen[NSLOT];

static uint8_t canary_img[DATA_PAGES * PAGE];
static uint8_t canary_byte(size_t i) { return (uint8_t)(0xC3 ^ (i * 7)); }
static void fill_canary(Region* r)
{
    if (!canary_img[1]) for (size_t i = 0; i < DATA_PAGES * PAGE; i++) canary_img[i] = canary_byte(i);
    memcpy(r->data, canary_img, DATA_PAGES * PAGE);
}
static int check_canary(Region* r, uint8_t* a, size_t n)
{
    size_t lo = (size_t)(a - r->data), hi = lo + n;
    if (a < r->data || hi > DATA_PAGES * PAGE) return memcmp(r->data, canary_img, DATA_PAGES * PAGE) != 0;
    return memcmp(r->data, canary_img, lo) != 0 || memcmp(r->data + hi, canary_img + hi, DATA_PAGES * PAGE - hi) != 0;
}

int hexval(int c) { return c <= '9' ? c - '0' : (c | 32) - 'a' + 10; }
size_t unhex(const char* s, uint8_t* out, size_t max)
{
    size_t n = 0;
    if (s[0] == '-' ) return 0;
    while (s[0] && s[1] && n < max) { out[n++] = (uint8_t)(hexval(s[0]) * 16 + hexval(s[1])); s += 2; }
    return n;
}
void puthex(const uint8_t* p, size_t n)
{
    static const char* d = "0123456789abcdef";
    if (n == 0) { putchar('-'); return; }
    for (size_t i = 0; i < n; i++) { putchar(d[p[i] >> 4]); putchar(d[p[i] & 15]); }
}
static uint64_t be64(const uint8_t* p) { uint64_t v = 0; for (int i = 0; i < 8; i++) v = (v << 8) | p[i]; return v; }
static void put64(uint64_t v) { uint8_t b[8]; for (int i = 7; i >= 0; i--) { b[i] = (uint8_t)v; v >>= 8; } puthex(b, 8); }

const ViewBinding* find_view(const char* name)
{
    for (int i = 0; all_views[i]; i++) if (!strcmp(all_views[i]->view, name)) return all_views[i];
    return NULL;
}

static void describe(void)
{
    printf("{\"views\":[");
    for (int i = 0; all_views[i]; i++) {
        const ViewBinding* v = all_views[i];
        printf("%s{\"view\":\"%s\",\"header\":\"%s\",\"len_macro\":\"%s\",\"header_len\":%ld,\"sizeof\":%ld,\"payload_offset\":%ld,"
               "\"field_max\":%ld,\"gget\":%d,\"gset\":%d,\"init\":%d,\"payload\":%d,\"lget\":%d,\"lset\":%d,\"linit\":%d,\"fields\":[",
               i ? "," : "", v->view, v->header, v->len_macro, v->header_len, v->sizeof_type, v->payload_offset, v->field_max,
               !!v->gget, !!v->gset, !!v->init, !!v->payload, !!v->lget, !!v->lset, !!v->linit);
        for (int k = 0; k < v->nfields; k++) {
            const FieldBinding* f = &v->fields[k];
            printf("%s{\"name\":\"%s\",\"enumerator\":\"%s\",\"id\":%ld,\"get\":%d,\"set\":%d,\"ret_size\":%d,\"get_sym\":\"%s\",\"set_sym\":\"%s\"}",
                   k ? "," : "", f->name, f->enumerator, f->id, !!f->get, !!f->set, f->get_ret_size, f->get_sym, f->set_sym);
        }
        printf("],\"facts\":[");
        for (int k = 0; v->facts[k].kind; k++)
            printf("%s{\"kind\":\"%s\",\"name\":\"%s\",\"value\":%ld}", k ? "," : "", v->facts[k].kind, v->facts[k].name, v->facts[k].value);
        printf("]}");
    }
    printf("]");
    describe_ext();
    printf("}\n");
}

/* run one header operation at address p; returns 0 ok, 1 nobind */
typedef struct { uint64_t ret; long rc; uint64_t out; int nobind; } OpRes;
#define OUT_SENTINEL 0xA55AA55AA55AA55AULL

static void run_op(const ViewBinding* v, const char* op, const char* path, long fidx, long id, uint64_t val, uint8_t* hdr, OpRes* r)
{
    const FieldBinding* f = (fidx >= 0 && fidx < v->nfields) ? &v->fields[fidx] : NULL;
    int generic = !strcmp(path, "generic"), dedicated = !strcmp(path, "dedicated"), legacy = !strcmp(path, "legacy");
    r->ret = 0; r->rc = 0; r->out = OUT_SENTINEL; r->nobind = 0;
    if (!strncmp(op, "null", 4)) hdr = NULL;
    if (!strcmp(op, "get") || !strcmp(op, "nullget") || !strcmp(op, "badget") || !strcmp(op, "nullout")) {
        long fid = (!strcmp(op, "badget")) ? id : (f ? f->id : -1);
        if (generic) { if (!v->gget) { r->nobind = 1; return; } r->ret = v->gget(hdr, fid); }
        else if (dedicated) { if (!f || !f->get) { r->nobind = 1; return; } r->ret = f->get(hdr); }
        else if (legacy) { if (!v->lget) { r->nobind = 1; return; }
            r->rc = v->lget(hdr, fid, !strcmp(op, "nullout") ? NULL : &r->out); }
        else r->nobind = 1;
    } else if (!strcmp(op, "set") || !strcmp(op, "nullset") || !strcmp(op, "badset")) {
        long fid = (!strcmp(op, "badset")) ? id : (f ? f->id : -1);
        if (generic) { if (!v->gset) { r->nobind = 1; return; } v->gset(hdr, fid, val); }
        else if (dedicated) { if (!f || !f->set) { r->nobind = 1; return; } f->set(hdr, val); }
        else if (legacy) { if (!v->lset) { r->nobind = 1; return; } r->rc = v->lset(hdr, fid, val); }
        else r->nobind = 1;
    } else if (!strcmp(op, "init") || !strcmp(op, "nullinit")) {
        if (legacy) { if (!v->linit) { r->nobind = 1; return; } r->rc = v->linit(hdr, val); }
        else { if (!v->init) { r->nobind = 1; return; } v->init(hdr); }
    } else if (!strcmp(op, "getalias")) {      /* deprecated getter, result object inside the buffer at hdr + val */
        if (!v->lget_raw || !f) { r->nobind = 1; return; }
        r->rc = v->lget_raw(hdr, f->id, hdr + (long)val);
    } else if (!strcmp(op, "payload")) {
        if (!v->payload) { r->nobind = 1; return; }
        r->ret = (uint64_t)(v->payload(hdr) - hdr);
    } else r->nobind = 1;
}

static void do_op(Region* reg, uint8_t* arena, size_t alen, int readonly, char** tok)
{
    /* tok: view op path fidx id val16 base */
    const ViewBinding* v = find_view(tok[0]);
    OpRes r; memset(&r, 0, sizeof r);
    uint8_t vb[8]; unhex(tok[5], vb, 8);
    uint64_t val = be64(vb);
    long base = atol(tok[6]);
    char status[64] = "ok"; int amb = 0;
    if (!v) { printf("R nobind 0000000000000000 0 0000000000000000 - 0\n"); return; }
    if (readonly) mprotect(reg->data, DATA_PAGES * PAGE, PROT_READ);
    fault_sig = 0;
    if (sigsetjmp(jb, 1) == 0) {
        in_call = 1; watch(1); ambient_arm(); in_call_flag_for_ambient = 1;
        run_op(v, tok[1], tok[2], atol(tok[3]), atol(tok[4]), val, arena + base, &r);
        in_call_flag_for_ambient = 0; amb = ambient_verdict(); watch(0); in_call = 0;
    } else {
        in_call_flag_for_ambient = 0; errno = 0; watch(0); in_call = 0;
        snprintf(status, sizeof status, "fault:%d:%ld", fault_sig, (long)((uint8_t*)fault_addr - arena));
    }
    if (readonly) mprotect(reg->data, DATA_PAGES * PAGE, PROT_READ | PROT_WRITE);
    if (r.nobind) strcpy(status, "nobind");
    printf("R %s ", status); put64(r.ret); printf(" %ld ", r.rc); put64(r.out); putchar(' ');
    puthex(arena, alen);
    int bad = reg ? check_canary(reg, arena, alen) : 0;
    printf(" %d\n", bad ? bad : amb);
    if (bad) fill_canary(reg);
}
static void uncanary(Region* reg, uint8_t* arena, size_t alen)
{   /* give the arena's bytes back to the canary pattern */
    for (size_t i = 0; i < alen; i++) arena[i] = canary_byte((size_t)(arena + i - reg->data));
}

/* ---- helpers for exec_ext.c ---- */
/* 'G' placement: the arena starts <off> bytes below an address that is a multiple of 2^32 (off = 0: exactly on it; off = length:
 * it ends there; in between it straddles the boundary).  Code that keeps addresses or address differences in 32 bits sees a
 * zero, a wrap or an "end before start" here. */
static uint8_t* gig_boundary(void)
{
    static uint8_t* b;
    if (b) return b;
    for (unsigned long long k = 32; k < 4096 && !b; k++) {
        uint8_t* want = (uint8_t*)(k << 32) - 4 * PAGE;
        void* got = mmap(want, 8 * PAGE, PROT_READ | PROT_WRITE, MAP_PRIVATE | MAP_ANONYMOUS | MAP_FIXED_NOREPLACE, -1, 0);
        if (got == (void*)want) b = want + 4 * PAGE; else if (got != MAP_FAILED) munmap(got, 8 * PAGE);
    }
    return b;
}
static Region* cur_reg; static int cur_ro;
static long src_shift;      /* <off> = offset + 100 * shift: source objects (payloads, paths, values) end <shift> bytes before the guard
                               page, so that the alignment of the source can be chosen independently of its length (C15) */
static int src_far; static uint8_t* dest_hint; static Region regF;
void ext_dest_hint(uint8_t* p) { dest_hint = p; }   /* where the call will copy the source object to (for "far" placement) */
uint8_t* ext_place(char place, long off, const uint8_t* bytes, size_t n)
{
    uint8_t* a;
    src_far = (off >= 1000); off %= 1000;            /* <off> + 1000: source object exactly 2^32 bytes above its destination */
    src_shift = off / 100; off %= 100;
    if (place == 'G' && gig_boundary()) { cur_reg = NULL; a = gig_boundary() - off; }
    else if (place == 'S') { cur_reg = &regS; a = regS.data + off; }
    else { cur_reg = &regE; a = regE.data + DATA_PAGES * PAGE - n; }
    cur_ro = (place == 'R');
    memcpy(a, bytes, n);
    return a;
}
static size_t src_align = 1;      /* typed source arrays (uint16_t* ...) keep the alignment their element type requires */
uint8_t* ext_source(const uint8_t* bytes, size_t n)   /* read-only source object, end flush against a guard page */
{
    if (src_far && dest_hint && cur_reg == &regS) {
        /* a second region exactly 4 GiB above the S region: pointer differences between the two do not fit 32 bits */
        if (!regF.map) {
            void* want = regS.map + (1ULL << 32);
            void* got = mmap(want, (DATA_PAGES + 2) * PAGE, PROT_READ | PROT_WRITE, MAP_PRIVATE | MAP_ANONYMOUS | MAP_FIXED_NOREPLACE, -1, 0);
            if (got == want) { regF.map = got; regF.data = regF.map + PAGE; }
        }
        if (regF.map) { uint8_t* f = dest_hint + (1ULL << 32); memcpy(f, bytes, n); return f; }
    }
    uint8_t* a = regP.data + DATA_PAGES * PAGE - n - (src_shift - src_shift % (long)src_align);
    mprotect(regP.data, DATA_PAGES * PAGE, PROT_READ | PROT_WRITE);
    memcpy(a, bytes, n);
    mprotect(regP.data, DATA_PAGES * PAGE, PROT_READ);
    return a;
}
uint8_t* ext_source_typed(const uint8_t* bytes, size_t n, size_t elem)
{
    src_align = elem ? elem : 1; uint8_t* a = ext_source(bytes, n); src_align = 1; return a;
}
uint8_t* ext_dest(int k, size_t cap, uint8_t fill)   /* writable destination object k of exactly cap bytes, end flush */
{
    if (k < 0 || k >= NDEST) return NULL;
    if (!regD[k].map) regD[k] = mkregion();
    memset(regD[k].data, fill, DATA_PAGES * PAGE);
    return regD[k].data + DATA_PAGES * PAGE - cap;
}
int ext_dest_dirty(int k, size_t cap, uint8_t fill)   /* was anything before the destination object modified? */
{
    size_t lo = DATA_PAGES * PAGE - cap;
    for (size_t i = 0; i < lo; i++) if (regD[k].data[i] != fill) return 1;
    return 0;
}
static int ext_amb;
int ext_call(void (*fn)(void*), void* ctx, char* status, size_t slen, uint8_t* arena)
{
    strcpy(status, "ok");
    if (cur_ro) mprotect(cur_reg->data, DATA_PAGES * PAGE, PROT_READ);
    fault_sig = 0;
    ext_amb = 0;
    if (sigsetjmp(jb, 1) == 0) { in_call = 1; watch(1); ambient_arm(); in_call_flag_for_ambient = 1; fn(ctx); in_call_flag_for_ambient = 0; ext_amb = ambient_verdict(); watch(0); in_call = 0; }
    else { in_call_flag_for_ambient = 0; errno = 0; watch(0); in_call = 0; snprintf(status, slen, "fault:%d:%ld", fault_sig, (long)((uint8_t*)fault_addr - arena)); }
    if (cur_ro) mprotect(cur_reg->data, DATA_PAGES * PAGE, PROT_READ | PROT_WRITE);
    return status[0] == 'o';
}
void ext_result(const char* status, uint64_t ret, long rc, uint64_t out, uint8_t* arena, size_t alen)
{
    printf("R %s ", status); put64(ret); printf(" %ld ", rc); put64(out); putchar(' ');
    puthex(arena, alen);
    int bad = cur_reg ? check_canary(cur_reg, arena, alen) : 0;
    printf(" %d", bad ? bad : ext_amb);
    if (bad) fill_canary(cur_reg);
    if (cur_reg) uncanary(cur_reg, arena, alen);
}

static int real_main(void);
static void* main_thread(void* a) { (void)a; return (void*)(long)real_main(); }
#include <pthread.h>
int main(void)
{
    /* VERIF_SMALL_STACK: the command loop (and with it every library call) runs on a 64 KiB stack between guard pages: a call
     * whose stack need grows with its input overruns it (reported as a fault of the call: the handler runs on an alternate stack) */
    if (getenv("VERIF_SMALL_STACK")) {
        pthread_attr_t at; pthread_attr_init(&at); pthread_attr_setstacksize(&at, 64 * 1024); pthread_attr_setguardsize(&at, 64 * 1024);
        pthread_t th; void* rv = NULL;
        if (pthread_create(&th, &at, main_thread, NULL) == 0) { pthread_join(th, &rv); return (int)(long)rv; }
    }
    return real_main();
}
static int real_main(void)
{
    static char line[1 << 20];
    static uint8_t buf[MAXARENA];
    struct sigaction sa; memset(&sa, 0, sizeof sa);
    sa.sa_sigaction = on_fault; sa.sa_flags = SA_SIGINFO | SA_NODEFER | SA_ONSTACK;
    { static char altstk[1 << 16]; stack_t ss; ss.ss_sp = altstk; ss.ss_size = sizeof altstk; ss.ss_flags = 0; sigaltstack(&ss, NULL); }   /* a fault of the stack itself is reported like any other */
    sigaction(SIGSEGV, &sa, NULL); sigaction(SIGBUS, &sa, NULL); sigaction(SIGFPE, &sa, NULL); sigaction(SIGILL, &sa, NULL); sigaction(SIGALRM, &sa, NULL);
    regE = mkregion(); regS = mkregion(); regP = mkregion(); fill_canary(&regE); fill_canary(&regS);
    setvbuf(stdout, NULL, _IOFBF, 1 << 16);
    while (fgets(line, sizeof line, stdin)) {
        char* tok[24]; int nt = 0;
        for (char* p = strtok(line, " \t\r\n"); p && nt < 24; p = strtok(NULL, " \t\r\n")) tok[nt++] = p;
        if (nt == 0) continue;
        if (!strcmp(tok[0], "describe")) { describe(); fflush(stdout); continue; }
        if (watch_hits >= WATCH_BUDGET && strcmp(tok[0], "flush")) {
            printf("R skipped 0000000000000000 0 0000000000000000 - 0 len=0 data=- dirty=0 ret=0 res=-\n"); continue;
        }
        if (!strcmp(tok[0], "flush")) { printf("F\n"); fflush(stdout); continue; }
        if (!strcmp(tok[0], "X") && nt >= 11) {
            size_t alen = unhex(tok[10], buf, sizeof buf);
            char place = tok[8][0]; long off = atol(tok[9]);
            Region* reg; uint8_t* arena;
            if (place == 'H') {      /* exact-size heap object, <off> bytes in front: for builds with AddressSanitizer, whose red zones
                                        see an access one byte beyond the object at any alignment (a guard page only sees page crossings) */
                uint8_t* obj = malloc((size_t)off + alen);
                memcpy(obj + off, buf, alen);
                fprintf(stderr, "##CMD %s %s %s %s\n", tok[1], tok[2], tok[3], tok[4]);
                do_op(NULL, obj + off, alen, 0, &tok[1]);
                free(obj);
                continue;
            }
            if (place == 'G' && gig_boundary()) {
                arena = gig_boundary() - off; memcpy(arena, buf, alen);
                do_op(NULL, arena, alen, 0, &tok[1]);
                continue;
            }
            if (place == 'S') { reg = &regS; arena = reg->data + off; }
            else { reg = &regE; arena = reg->data + DATA_PAGES * PAGE - alen; }
            memcpy(arena, buf, alen);
            do_op(reg, arena, alen, place == 'R', &tok[1]);
            uncanary(reg, arena, alen);
            continue;
        }
        if (!strcmp(tok[0], "N") && nt >= 4) {
            int s = atoi(tok[1]) % NSLOT; long off = atol(tok[2]);
            if (!slotreg[s].map) slotreg[s] = mkregion();
            fill_canary(&slotreg[s]);
            slotlen[s] = unhex(tok[3], buf, sizeof buf);
            slotptr[s] = slotreg[s].data + off;
            memcpy(slotptr[s], buf, slotlen[s]);
            printf("R ok\n"); continue;
        }
        if (!strcmp(tok[0], "D") && nt >= 9) {
            int s = atoi(tok[1]) % NSLOT;
            if (!slotptr[s]) { printf("R nobind 0000000000000000 0 0000000000000000 - 0\n"); continue; }
            do_op(&slotreg[s], slotptr[s], slotlen[s], 0, &tok[2]);
            continue;
        }
        if (!strcmp(tok[0], "G") && nt >= 2) {
            int s = atoi(tok[1]) % NSLOT;
            printf("R ok 0000000000000000 0 0000000000000000 "); puthex(slotptr[s], slotlen[s]);
            printf(" %d\n", check_canary(&slotreg[s], slotptr[s], slotlen[s])); continue;
        }
        if (exec_ext(tok, nt)) continue;
        printf("E unknown command %s\n", tok[0]);
    }
    fflush(stdout);
    return 0;
}
