/*
 * stress.c - C16: N threads execute library calls concurrently, each on buffers of its own
 * (plus reads of one shared, read-only buffer) and log what they observed.  Built with
 * -fsanitize=thread.  Like the executor it contains no expected values: per-thread logs are
 * validated by TLC (PduTrace / VssTrace) afterwards; TSan reports go to stderr.
 *
 * input (file argv[1]):
 *   S <base> <hex>                                  the shared read-only buffer
 *   T <tid>                                         following lines belong to thread tid
 *   L <slot> <hex>                                  load private buffer <slot> (0..3); the private buffers of all threads are
 *                                                   packed back to back (neighbours belong to different threads)
 *   D <slot|S> <view> <op> <path> <fidx> <val16> <base>     header operation
 *   V <dt> <withdest> <cap> <base> <hex>             decode the VSS value of a private message
 *   A <k> <dt> <hexlogical>                         shared SOURCE array k (0..3) of datatype dt: several threads encode from it
 *   W <k> <base> <hex>                              encode (putdata) the shared array k into a private message
 * output: one line per D / V / W command:  "<tid> <index> R ..." (same format as the executor)
 */
#define main exec_main
#include "exec.c"
#undef main
#include "exec_ext.c"
#include <pthread.h>

#define MAXT 16
typedef struct { char kind; int slot; const ViewBinding* v; char op[12], path[12]; long fidx; uint64_t val; long base;
                 int dt, withdest; long cap; uint8_t* bytes; size_t n; uint8_t* orig; } Cmd;
typedef struct { uint16_t data_length; void* data; } PArr;
typedef struct { Cmd* cmds; size_t n, capn; char* out; size_t outn, outcap; uint8_t* slots[4]; size_t slotlen[4]; int tid;
                 PArr parr;      /* the thread's descriptor for length queries, reused from call to call like a real caller's */
               } Thr;
static Thr thr[MAXT];
static uint8_t* shared; static size_t sharedlen;
static struct { int dt; uint8_t* host; size_t n; } sarr[4];      /* shared source arrays (host-typed), read by every thread */
static pthread_barrier_t bar;

static void outf(Thr* t, const char* s, size_t n)
{
    if (t->outn + n + 1 > t->outcap) { t->outcap = (t->outcap + n) * 2 + 4096; t->out = realloc(t->out, t->outcap); }
    memcpy(t->out + t->outn, s, n); t->outn += n;
}
static void outhex(Thr* t, const uint8_t* p, size_t n)
{
    static const char* d = "0123456789abcdef"; char b[2];
    if (!n) { outf(t, "-", 1); return; }
    for (size_t i = 0; i < n; i++) { b[0] = d[p[i] >> 4]; b[1] = d[p[i] & 15]; outf(t, b, 2); }
}
static void out64(Thr* t, uint64_t v) { uint8_t b[8]; for (int i = 7; i >= 0; i--) { b[i] = (uint8_t)v; v >>= 8; } outhex(t, b, 8); }

static void* worker(void* arg)
{
    Thr* t = arg; char tmp[96];
    pthread_barrier_wait(&bar);
    for (size_t i = 0; i < t->n; i++) {
        Cmd* c = &t->cmds[i];
        if (c->kind == 'L') { if (c->n <= t->slotlen[c->slot]) memcpy(t->slots[c->slot], c->bytes, c->n); continue; }
        if (c->kind == 'D') {
            uint8_t* a = c->slot < 0 ? shared : t->slots[c->slot]; size_t alen = c->slot < 0 ? sharedlen : t->slotlen[c->slot];
            OpRes r; run_op(c->v, c->op, c->path, c->fidx, 0, c->val, a + c->base, &r);
            int n = snprintf(tmp, sizeof tmp, "%d %zu R %s ", t->tid, i, r.nobind ? "nobind" : "ok"); outf(t, tmp, n);
            out64(t, r.ret); n = snprintf(tmp, sizeof tmp, " %ld ", r.rc); outf(t, tmp, n); out64(t, r.out); outf(t, " ", 1);
            outhex(t, a, alen); outf(t, " 0\n", 3);
        } else if (c->kind == 'W') {
            VssData_t data; GenArr arr; memset(&data, 0xCD, sizeof data);
            arr.data_length = (uint16_t)sarr[c->slot].n; arr.data = sarr[c->slot].host;
            data.data_string = (VssDataString_t*)&arr;
            Avtp_Vss_SetVssData((Avtp_Vss_t*)(c->bytes + c->base), &data);
            int n = snprintf(tmp, sizeof tmp, "%d %zu R ok 0000000000000000 0 0000000000000000 ", t->tid, i); outf(t, tmp, n);
            outhex(t, c->bytes, c->n); outf(t, " 0 len=0 data=- dirty=0\n", 24);
        } else if (c->kind == 'V') {
            VssData_t data; GenArr arr; memset(&data, 0xCD, sizeof data);
            int es = elem_size(c->dt);
            uint8_t* dest = c->withdest ? malloc(c->cap + 8) : NULL;
            uint8_t* res = malloc(c->cap + 16); size_t reslen;
            arr.data_length = 0xBEEF; arr.data = dest;
            if (is_var(c->dt)) data.data_string = (VssDataString_t*)&arr;
            if (is_var(c->dt) && !c->withdest) {       /* length query through the thread's persistent descriptor (never given a destination) */
                t->parr.data_length = 0xBEEF; data.data_string = (VssDataString_t*)&t->parr;
            }
            Avtp_Vss_GetVssData((Avtp_Vss_t*)(c->bytes + c->base), &data);
            int n = snprintf(tmp, sizeof tmp, "%d %zu R ok 0000000000000000 0 0000000000000000 ", t->tid, i); outf(t, tmp, n);
            outhex(t, c->bytes, c->n);
            if (is_var(c->dt) && !c->withdest) { reslen = t->parr.data_length; }
            else if (is_var(c->dt)) { reslen = arr.data_length; if (dest) from_host(dest, res, reslen > (size_t)c->cap ? (size_t)c->cap : reslen, es); }
            else { reslen = es; from_host((uint8_t*)&data, res, es, es); }
            n = snprintf(tmp, sizeof tmp, " 0 len=%zu data=", reslen); outf(t, tmp, n);
            if (dest || !is_var(c->dt)) outhex(t, res, reslen > (size_t)c->cap && dest ? (size_t)c->cap : reslen); else outf(t, "-", 1);
            outf(t, " dirty=0\n", 9);
            free(dest); free(res);
        }
    }
    return NULL;
}

int main(int argc, char** argv)
{
    static char line[1 << 20]; static uint8_t buf[1 << 19];
    if (argc < 2) return 2;
    FILE* f = fopen(argv[1], "r"); if (!f) return 2;
    int cur = -1, nt = 0;
    while (fgets(line, sizeof line, f)) {
        char* tok[16]; int n = 0;
        for (char* p = strtok(line, " \t\r\n"); p && n < 16; p = strtok(NULL, " \t\r\n")) tok[n++] = p;
        if (!n) continue;
        if (tok[0][0] == 'S' && n >= 3) { sharedlen = unhex(tok[2], buf, sizeof buf); shared = malloc(sharedlen + 1); memcpy(shared, buf, sharedlen); continue; }
        if (tok[0][0] == 'A' && n >= 4) {
            int k = atoi(tok[1]) & 3; static uint8_t lb[1 << 16];
            sarr[k].dt = atoi(tok[2]); sarr[k].n = unhex(tok[3], lb, sizeof lb); sarr[k].host = malloc(sarr[k].n + 8);
            to_host(lb, sarr[k].host, sarr[k].n, elem_size(sarr[k].dt)); continue;
        }
        if (tok[0][0] == 'T') { cur = atoi(tok[1]); if (cur >= MAXT) return 2; if (cur + 1 > nt) nt = cur + 1; thr[cur].tid = cur; continue; }
        if (cur < 0) continue;
        Thr* t = &thr[cur];
        if (t->n == t->capn) { t->capn = t->capn * 2 + 1024; t->cmds = realloc(t->cmds, t->capn * sizeof(Cmd)); }
        Cmd* c = &t->cmds[t->n]; memset(c, 0, sizeof *c);
        c->kind = tok[0][0];
        if (c->kind == 'L' && n >= 3) { c->slot = atoi(tok[1]) & 3; c->n = unhex(tok[2], buf, sizeof buf); c->bytes = malloc(c->n + 1); memcpy(c->bytes, buf, c->n); }
        else if (c->kind == 'D' && n >= 8) {
            c->slot = tok[1][0] == 'S' ? -1 : (atoi(tok[1]) & 3); c->v = find_view(tok[2]);
            strncpy(c->op, tok[3], 11); strncpy(c->path, tok[4], 11); c->fidx = atol(tok[5]);
            uint8_t vb[8]; unhex(tok[6], vb, 8); c->val = be64x(vb); c->base = atol(tok[7]);
            if (!c->v) continue;
        } else if (c->kind == 'W' && n >= 4) {
            c->slot = atoi(tok[1]) & 3; c->base = atol(tok[2]);
            c->n = unhex(tok[3], buf, sizeof buf); c->bytes = malloc(c->n + 8); memcpy(c->bytes, buf, c->n);
        } else if (c->kind == 'V' && n >= 6) {
            c->dt = atoi(tok[1]); c->withdest = atoi(tok[2]); c->cap = atol(tok[3]); c->base = atol(tok[4]);
            c->n = unhex(tok[5], buf, sizeof buf); c->bytes = malloc(c->n + 8); memcpy(c->bytes, buf, c->n);
            c->orig = malloc(c->n + 8); memcpy(c->orig, buf, c->n);
        } else continue;
        t->n++;
    }
    fclose(f);
    /* private buffers are packed back to back in one arena, slot-major, so that the right-hand neighbour of (almost) every
     * buffer belongs to ANOTHER thread: a call that touches bytes next to its own PDU races with that thread */
    size_t total = 0;
    for (int i = 0; i < nt; i++) for (size_t k = 0; k < thr[i].n; k++) { Cmd* c = &thr[i].cmds[k]; if (c->kind == 'L' && c->n > thr[i].slotlen[c->slot]) thr[i].slotlen[c->slot] = c->n; }
    for (int sl = 0; sl < 4; sl++) for (int i = 0; i < nt; i++) total += thr[i].slotlen[sl];
    uint8_t* packed = malloc(total + 64); size_t pos = 8;          /* 8-byte aligned start, like any allocation */
    for (int sl = 0; sl < 4; sl++) for (int i = 0; i < nt; i++) { thr[i].slots[sl] = packed + pos; pos += thr[i].slotlen[sl]; }
    pthread_t th[MAXT];
    pthread_barrier_init(&bar, NULL, nt);
    for (int i = 0; i < nt; i++) pthread_create(&th[i], NULL, worker, &thr[i]);
    for (int i = 0; i < nt; i++) pthread_join(th[i], NULL);
    for (int i = 0; i < nt; i++) fwrite(thr[i].out, 1, thr[i].outn, stdout);
    /* read-only calls leave every message they were given as it was - also the messages of EARLIER calls */
    for (int i = 0; i < nt; i++) for (size_t k = 0; k < thr[i].n; k++) {
        Cmd* c = &thr[i].cmds[k];
        if (c->kind == 'V' && c->orig && memcmp(c->bytes, c->orig, c->n)) fprintf(stderr, "##PDU-MODIFIED thread %d command %zu (datatype %d)\n", i, k, c->dt);
    }
    return 0;
}
